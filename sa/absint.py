"""M4: abstract interpreter for construct builders.

Evaluates, without running them, the `visit_*` methods of the parse-tree visitor (parser.py) over an
abstract parse node of each PEG rule, and the `__init__` bodies / properties of the element classes they
instantiate.  The result for a grammar rule is the abstract construct it builds, in which every source
operand is a leaf that remembers its position in the rule (`src` path), so rules can say which operand
ends up in which field / argument position.

Value domain
    Const(v)            python constant
    StrV(lits, desc)    string; `lits` = finite set of possible values or None
    NodeV(expr, path)   raw parsimonious node
    Operand(rule, path) value built for an expression-level (recursive) grammar rule: not expanded;
                        its possible classes come from the class-set inference T(rule)
    Obj(cls, fields)    instance of a repository class
    Seq(items, tail)    list/tuple: fixed items followed by an optional homogeneous tail (None = no tail)
    Union(alts)         one of several
    Unknown(reason)     anything the interpreter does not model (rules depending on it fail closed)
"""

from __future__ import annotations

import ast
from dataclasses import dataclass, field
from typing import Any, Dict, FrozenSet, List, Optional, Set, Tuple

from .core import AnalysisError, Ctx
from .peg import Peg, peg
from .pyast import ClassInfo, PyFacts, pyfacts, unparse
from .visitormodel import PARSER_REL, visitormodel

Path = Tuple[int, ...]


class V:
    src: Optional[Path] = None


@dataclass(eq=False)
class Const(V):
    value: Any
    src: Optional[Path] = None

    def __repr__(self):
        return f"Const({self.value!r})"


@dataclass(eq=False)
class StrV(V):
    lits: Optional[FrozenSet[str]] = None
    desc: str = ""
    src: Optional[Path] = None

    def __repr__(self):
        return f"StrV({sorted(self.lits) if self.lits is not None else self.desc})"


@dataclass(eq=False)
class NumV(V):
    desc: str = ""
    src: Optional[Path] = None

    def __repr__(self):
        return f"NumV({self.desc})"


@dataclass(eq=False)
class BoolV(V):
    desc: str = ""
    src: Optional[Path] = None


@dataclass(eq=False)
class NodeV(V):
    expr: Any
    path: Path
    desc: str = ""
    src: Optional[Path] = None
    force: str = ""  # "empty": an optional node that matched nothing; "present": it matched its member
    force_text: Optional[str] = None  # case split: the node matched exactly this literal

    def __repr__(self):
        return f"NodeV({self.desc})"


@dataclass(eq=False)
class Operand(V):
    rule: str
    path: Path
    src: Optional[Path] = None
    only: Optional[FrozenSet[str]] = None  # class restriction learnt from an isinstance test

    def __repr__(self):
        return f"Operand({self.rule}@{'.'.join(map(str, self.path))})"


@dataclass(eq=False)
class Obj(V):
    cls: str
    fields: Dict[str, V] = field(default_factory=dict)
    line: int = 0
    file: str = ""
    src: Optional[Path] = None

    def __repr__(self):
        return f"Obj({self.cls})"


@dataclass(eq=False)
class Seq(V):
    items: List[V] = field(default_factory=list)
    tail: Optional[V] = None  # element value of the homogeneous tail
    opt: bool = False  # tail is at most one element (`?`)
    src: Optional[Path] = None
    kind: str = "list"  # list | tuple | generator (mutability matters to passes that patch lists in place)

    def __repr__(self):
        return f"Seq({self.items}{', *' + repr(self.tail) if self.tail is not None else ''})"


@dataclass(eq=False)
class Union(V):
    alts: List[V] = field(default_factory=list)
    src: Optional[Path] = None

    def __repr__(self):
        return "Union(" + " | ".join(map(repr, self.alts)) + ")"


@dataclass(eq=False)
class Unknown(V):
    reason: str = ""
    src: Optional[Path] = None

    def __repr__(self):
        return f"Unknown({self.reason})"


@dataclass(eq=False)
class MapV(V):
    """A dict display with constant keys."""

    items: Dict[Any, Any] = field(default_factory=dict)
    src: Optional[Path] = None

    def __repr__(self):
        return f"MapV({sorted(map(str, self.items))[:6]})"


@dataclass(eq=False)
class FuncV(V):
    """A lambda / nested function value together with the environment it closes over."""

    node: Any = None  # ast.Lambda or ast.FunctionDef
    env: Any = None
    owner: str = ""
    src: Optional[Path] = None

    def __repr__(self):
        return f"FuncV(line {getattr(self.node, 'lineno', '?')})"


@dataclass(eq=False)
class Tmpl(V):
    """Text template: parts are python strings or values (holes); ("join", sep, elem) for a joined tail."""

    parts: List[Any] = field(default_factory=list)
    src: Optional[Path] = None

    def __repr__(self):
        return "Tmpl(" + "".join(p if isinstance(p, str) else "{" + repr(p) + "}" for p in self.parts) + ")"


def tmpl_parts(v: V) -> Optional[List[Any]]:
    if isinstance(v, Tmpl):
        return list(v.parts)
    if isinstance(v, Const) and isinstance(v.value, (str, int, float)):
        return [str(v.value)]
    if isinstance(v, (StrV, Union, Operand, NumV, Unknown, BoolV)):
        return [v]
    return None


def mk_tmpl(parts: List[Any]) -> V:
    out: List[Any] = []
    for p in parts:
        if isinstance(p, str) and out and isinstance(out[-1], str):
            out[-1] += p
        elif isinstance(p, str) and p == "":
            continue
        else:
            out.append(p)
    if all(isinstance(p, str) for p in out):
        return Const("".join(out))
    return Tmpl(out)


@dataclass(eq=False)
class ClassRef(V):
    name: str
    src: Optional[Path] = None


@dataclass(eq=False)
class TableV(V):
    name: str
    table: Dict[Any, Any] = field(default_factory=dict)
    src: Optional[Path] = None


def mk_union(alts: List[V]) -> V:
    flat: List[V] = []
    for a in alts:
        if isinstance(a, Union):
            flat.extend(a.alts)
        else:
            flat.append(a)
    out: List[V] = []
    for a in flat:
        dup = False
        for b in out:
            if a is b or (isinstance(a, Const) and isinstance(b, Const) and type(a.value) is type(b.value) and a.value == b.value):
                dup = True
                break
            if isinstance(a, Operand) and isinstance(b, Operand) and a.rule == b.rule and a.path == b.path and a.only == b.only:
                dup = True
                break
        if not dup:
            out.append(a)
    if len(out) == 1:
        return out[0]
    return Union(out)


def alts_of(v: V) -> List[V]:
    return list(v.alts) if isinstance(v, Union) else [v]


TRUE, FALSE, MAYBE = "T", "F", "M"

OPERATOR_TEXTS_FALLBACK: Set[str] = set()


class Returned(Exception):
    pass


class Interp:
    def __init__(self, ctx: Ctx):
        self.ctx = ctx
        self.py: PyFacts = pyfacts(ctx)
        self.peg: Peg = peg(ctx)
        self.vm = visitormodel(ctx)
        self.parser_mod = self.py.mod(PARSER_REL)
        self.tables: Dict[str, Dict] = {k: v for k, v in self.peg.env.items() if isinstance(v, dict)}
        self.opaque: Set[str] = self._recursive_rules()
        self.T: Dict[str, Set[str]] = {}
        self._t_stable = False
        self._rule_cache: Dict[Tuple[str, Path], V] = {}
        self._match_cache: Dict[Tuple[int, str], bool] = {}
        self._term_cache: Dict[int, V] = {}
        self._method_cache: Dict[Any, V] = {}
        self._desc_cache: Dict[int, str] = {}
        self._pure_cache: Dict[int, bool] = {}
        self._split_cache: Dict[int, List[str]] = {}
        self._modconst: Dict[Any, V] = {}
        self._is_str_cache: Dict[str, Set[Any]] = {}
        self._is_str_stack: List[str] = []
        self.depth = 0
        self.unknowns: List[str] = []
        self._compute_T()
        ctx.units["opaque_rules"] = len(self.opaque)

    # ------------------------------------------------------------------
    # grammar structure
    def _recursive_rules(self) -> Set[str]:
        """Named rules that lie on a cycle of the rule reference graph (expressions, statements)."""
        p = self.peg
        graph: Dict[str, Set[str]] = {}
        for name, e in p.rules.items():
            eff = e.name or name
            refs: Set[str] = set()
            stack = list(getattr(e, "members", ()) or ())
            seen = set()
            while stack:
                m = stack.pop()
                if id(m) in seen:
                    continue
                seen.add(id(m))
                if m.name:
                    refs.add(m.name)
                else:
                    stack.extend(getattr(m, "members", ()) or ())
            graph.setdefault(eff, set()).update(refs)
        # a rule is recursive if it can reach itself
        rec: Set[str] = set()
        for r in graph:
            seen: Set[str] = set()
            stack = list(graph[r])
            while stack:
                x = stack.pop()
                if x == r:
                    rec.add(r)
                    break
                if x in seen:
                    continue
                seen.add(x)
                stack.extend(graph.get(x, ()))
        return rec

    PASSIVE_ATTRS = {"basic09_text", "visit", "is_str_expr", "is_expr"}

    def expand(self, v: "Operand") -> V:
        """Expand an opaque operand on demand (it is iterated, subscripted or its fields are read)."""
        if self.depth > 40:
            return Unknown(f"expansion of {v!r} too deep")
        return self.eval_rule(v.rule, v.path, top=True)

    # ------------------------------------------------------------------
    # class-set inference
    def _compute_T(self):
        for r in self.opaque:
            self.T[r] = set()
        for _ in range(12):
            changed = False
            self._rule_cache.clear()
            for r in sorted(self.opaque):
                v = self.eval_rule(r, (), top=True)
                cs = self.classes_of(v)
                if not cs <= self.T[r]:
                    self.T[r] |= cs
                    changed = True
            if not changed:
                break
        self._t_stable = True
        self._rule_cache.clear()

    def classes_of(self, v: V, depth: int = 0) -> Set[str]:
        out: Set[str] = set()
        if isinstance(v, Obj):
            out.add(v.cls)
        elif isinstance(v, Const):
            out.add("const:" + type(v.value).__name__ + (":''" if v.value == "" else ""))
        elif isinstance(v, StrV):
            out.add("str")
        elif isinstance(v, NumV):
            out.add("num")
        elif isinstance(v, BoolV):
            out.add("bool")
        elif isinstance(v, NodeV):
            out.add("Node")
        elif isinstance(v, Seq):
            out.add("list")
        elif isinstance(v, Operand):
            out |= self.operand_classes(v)
        elif isinstance(v, Union):
            for a in v.alts:
                out |= self.classes_of(a, depth + 1)
        elif isinstance(v, Unknown):
            out.add("Unknown")
        return out

    def operand_classes(self, v: Operand) -> Set[str]:
        cs = self.T.get(v.rule, set())
        return set(cs) if v.only is None else {c for c in cs if c in v.only}

    # ------------------------------------------------------------------
    # evaluation of grammar rules
    def eval_rule(self, rule: str, path: Path, top: bool = False) -> V:
        e = self.peg.rule(rule)
        eff = e.name or rule
        if eff in self.opaque and not top:
            return Operand(eff, path, src=path)
        key = (eff, path)
        if key in self._rule_cache:
            return self._rule_cache[key]
        if self.depth > 40:
            return Unknown(f"rule nesting too deep at {eff}")
        self.depth += 1
        try:
            vm = self.vm.methods.get("visit_" + eff)
            outs = []
            for node, children in self.configurations(e, path, eff):
                if vm is not None:
                    outs.append(self.call_function(vm.fn, [Const(None), node, children], self_obj=None, owner="BasicVisitor"))
                else:
                    outs.append(self.generic_visit(node, children))
            v = self._with_src(mk_union(outs), path)
            self._rule_cache[key] = v
            return v
        finally:
            self.depth -= 1

    def _with_src(self, v: V, path: Path) -> V:
        if v.src is None:
            try:
                v.src = path
            except Exception:
                pass
        return v

    def eval_expr_member(self, m, path: Path) -> V:
        """Visited value of grammar sub-expression m located at `path`."""
        if m.name:
            return self.eval_rule(m.name, path)
        pure = self._pure_terminal(m)
        if pure and id(m) in self._term_cache:
            return self._term_cache[id(m)]
        outs = [self.generic_visit(node, children) for node, children in self.configurations(m, path, self._desc(m))]
        v = self._with_src(mk_union(outs), path)
        if pure:
            self._term_cache[id(m)] = v
        return v

    def _desc(self, m) -> str:
        k = id(m)
        if k not in self._desc_cache:
            self._desc_cache[k] = self.peg.describe(m)
        return self._desc_cache[k]

    def _pure_terminal(self, m) -> bool:
        """Anonymous expression built only from literals / regexes / blanks (its visited value does not
        depend on where it occurs)."""
        k = id(m)
        if k not in self._pure_cache:
            ok = True
            stack = [m]
            while stack:
                x = stack.pop()
                if x.name and x.name not in ("space",):
                    ok = False
                    break
                stack.extend(getattr(x, "members", ()) or ())
            self._pure_cache[k] = ok
        return self._pure_cache[k]

    def configurations(self, e, path: Path, desc: str):
        """(node, children) pairs to evaluate: an optional (`?`) node is split into absent / present."""
        children = self.children_of(e, path)
        if children.opt and not children.items:
            return [
                (NodeV(e, path, desc=desc, force="empty"), Seq([])),
                (NodeV(e, path, desc=desc, force="present"), Seq([children.tail])),
            ]
        # case split on selector children (raw nodes that match one of a few keywords)
        configs = [(NodeV(e, path, desc=desc), children)]
        if children.tail is None:
            for i, ch in enumerate(children.items):
                if isinstance(ch, NodeV) and ch.force_text is None:
                    _, lits = self.text_info(ch)
                    if lits is not None and 2 <= len(lits) <= 8 and len(configs) * len(lits) <= 16:
                        nxt = []
                        for node, chs in configs:
                            for lit in sorted(lits):
                                items = list(chs.items)
                                items[i] = NodeV(ch.expr, ch.path, desc=ch.desc, src=ch.src, force_text=lit)
                                nxt.append((node, Seq(items)))
                        configs = nxt
        return configs

    def children_of(self, e, path: Path) -> Seq:
        k = self.peg.kind(e)
        if k == "seq":
            return Seq([self.eval_expr_member(m, path + (i,)) for i, m in enumerate(e.members)])
        if k == "oneof":
            alts = [self.eval_expr_member(m, path + (0,)) for m in e.members]
            return Seq([mk_union(alts)])
        if k == "quant":
            elem = self.eval_expr_member(e.members[0], path + (0,))
            if e.min == 0 and e.max == 1:
                return Seq([], tail=elem, opt=True)
            if e.min >= 1:
                return Seq([elem] * min(e.min, 2), tail=elem)
            return Seq([], tail=elem)
        return Seq([])

    def generic_visit(self, node: NodeV, children: Seq) -> V:
        gv = self.vm.methods.get("generic_visit")
        if gv is None:
            # parsimonious default: return children or node
            return mk_union([children, node])
        return self.call_function(gv.fn, [Const(None), node, children], self_obj=None, owner="BasicVisitor")

    # ------------------------------------------------------------------
    # facts about node texts
    def text_info(self, n: NodeV) -> Tuple[str, Optional[FrozenSet[str]]]:
        """(blankness, literal set): blankness T = always blank-only, F = never, M = maybe."""
        p = self.peg
        e = n.expr
        if n.force_text is not None:
            return (TRUE if n.force_text.strip() == "" else FALSE), frozenset([n.force_text])
        if n.force == "empty":
            return TRUE, frozenset([""])
        if n.force == "present":
            e = e.members[0]
        lits = p.literal_set(e)
        if lits is not None:
            b = [s.strip() == "" for s in lits]
            return (TRUE if all(b) else FALSE if not any(b) else MAYBE), frozenset(lits)
        if p.blank_only()[id(e)]:
            return TRUE, None
        # can it match only blanks / nothing?
        if self._can_be_blank(e, 0):
            return MAYBE, None
        return FALSE, None

    def _can_be_blank(self, e, depth) -> bool:
        p = self.peg
        if depth > 30:
            return True
        k = p.kind(e)
        if k == "literal":
            return e.literal.strip() == ""
        if k == "regex":
            import re

            return any(e.re.fullmatch(s) for s in ("", " ", "  "))
        if k == "lookahead":
            return True
        if k == "quant":
            return e.min == 0 or self._can_be_blank(e.members[0], depth + 1)
        if k == "seq":
            return all(self._can_be_blank(m, depth + 1) for m in e.members)
        if k == "oneof":
            return any(self._can_be_blank(m, depth + 1) for m in e.members)
        return True

    def text_can_equal(self, n: NodeV, s: str) -> str:
        """Can node text equal the string s?  T (always - single literal), F (never), M."""
        if n.force == "empty":
            return TRUE if s == "" else FALSE
        if n.force_text is not None:
            return TRUE if s == n.force_text else FALSE
        blank, lits = self.text_info(n)
        if lits is not None:
            if lits == {s}:
                return TRUE
            return MAYBE if s in lits else FALSE
        return MAYBE if self.expr_matches(n.expr, s) else FALSE

    def expr_matches(self, e, s: str) -> bool:
        """Does PEG expression e match exactly the string s?  Decided by the grammar front-end itself
        (parsimonious `Expression.parse` on the reconstructed grammar), not by repository code."""
        key = (id(e), s)
        if key not in self._match_cache:
            try:
                e.parse(s)
                self._match_cache[key] = True
            except Exception:
                self._match_cache[key] = False
        return self._match_cache[key]

    # ------------------------------------------------------------------
    # python evaluation
    def call_function(self, fn: ast.FunctionDef, args: List[V], self_obj: Optional[Obj], owner: str, kwargs: Optional[Dict[str, V]] = None, outer: Optional[Dict[str, V]] = None) -> V:
        env: Dict[str, V] = dict(outer) if outer else {}
        params = fn.args.args
        if fn.args.vararg is not None:
            env[fn.args.vararg.arg] = Seq(list(args[len(params):]))
        defaults = fn.args.defaults
        nd = len(defaults)
        for i, a in enumerate(params):
            if i < len(args):
                env[a.arg] = args[i]
            elif kwargs and a.arg in kwargs:
                env[a.arg] = kwargs[a.arg]
            else:
                di = i - (len(params) - nd)
                if 0 <= di < nd:
                    env[a.arg] = self.ev(defaults[di], {}, owner)
                else:
                    env[a.arg] = Unknown(f"missing argument {a.arg}")
        for a, d in zip(fn.args.kwonlyargs, fn.args.kw_defaults):
            if kwargs and a.arg in kwargs:
                env[a.arg] = kwargs[a.arg]
            elif d is not None:
                env[a.arg] = self.ev(d, {}, owner)
            else:
                env[a.arg] = Unknown(f"missing keyword {a.arg}")
        rets: List[V] = []
        out_env = self.exec_block(fn.body, env, rets, owner)
        if out_env is not None:
            rets.append(Const(None))
        if not rets:
            return Unknown("function never returns")
        return mk_union(rets)

    def exec_block(self, body: List[ast.stmt], env: Dict[str, V], rets: List[V], owner: str) -> Optional[Dict[str, V]]:
        """Returns the environment at the end, or None if every path returned / raised."""
        cur: Optional[Dict[str, V]] = env
        for st in body:
            if cur is None:
                return None
            cur = self.exec_stmt(st, cur, rets, owner)
        return cur

    def join_env(self, a: Optional[Dict[str, V]], b: Optional[Dict[str, V]]) -> Optional[Dict[str, V]]:
        if a is None:
            return b
        if b is None:
            return a
        out: Dict[str, V] = {}
        for k in set(a) | set(b):
            if k in a and k in b:
                out[k] = a[k] if a[k] is b[k] else mk_union([a[k], b[k]])
            else:
                out[k] = a.get(k) or b.get(k)
        return out

    def exec_stmt(self, st: ast.stmt, env: Dict[str, V], rets: List[V], owner: str) -> Optional[Dict[str, V]]:
        if isinstance(st, ast.Expr):
            if isinstance(st.value, ast.Constant):
                return env
            self.ev(st.value, env, owner)
            return env
        if isinstance(st, ast.Return):
            rets.append(self.ev(st.value, env, owner) if st.value is not None else Const(None))
            return None
        if isinstance(st, ast.Raise):
            return None
        if isinstance(st, ast.Pass):
            return env
        if isinstance(st, ast.Assign):
            v = self.ev(st.value, env, owner)
            for t in st.targets:
                self.assign(t, v, env, owner)
            return env
        if isinstance(st, ast.AnnAssign):
            if st.value is not None:
                self.assign(st.target, self.ev(st.value, env, owner), env, owner)
            return env
        if isinstance(st, ast.AugAssign):
            v = self.ev(ast.BinOp(left=_load(st.target), op=st.op, right=st.value), env, owner)
            self.assign(st.target, v, env, owner)
            return env
        if isinstance(st, ast.If):
            sv = self.split_var(st.test, env)
            if sv is not None:
                out = None
                for a in env[sv].alts:
                    e2 = dict(env)
                    e2[sv] = a
                    o = self.exec_stmt(st, e2, rets, owner)
                    if o is not None:
                        # variables other than the split one are joined; the split variable keeps its alternatives
                        out = o if out is None else self.join_env(out, o)
                return out
            t, env_t, env_f = self.cond(st.test, env, owner)
            out_t = self.exec_block(st.body, env_t, rets, owner) if t != FALSE else None
            out_f = self.exec_block(st.orelse, env_f, rets, owner) if t != TRUE else None
            if t == TRUE:
                return out_t
            if t == FALSE:
                return out_f
            return self.join_env(out_t, out_f)
        if isinstance(st, (ast.Continue, ast.Break)):
            stack = getattr(self, "_loops", None)
            if not stack:
                self.unknowns.append(f"statement {type(st).__name__} outside a loop at line {st.lineno}")
                return env
            stack[-1]["cont" if isinstance(st, ast.Continue) else "brk"].append(dict(env))
            return None
        if isinstance(st, ast.For):
            if not hasattr(self, "_loops"):
                self._loops = []  # type: ignore[attr-defined]
            it = self.ev(st.iter, env, owner)
            elems = self.iter_elems(it)
            frame: Dict[str, list] = {"cont": [], "brk": []}
            self._loops.append(frame)  # type: ignore[attr-defined]

            def body(e2):
                """One round: the state at its end, `continue` paths included."""
                frame["cont"] = []
                o_ = self.exec_block(st.body, e2, rets, owner)
                for c_ in frame["cont"]:
                    o_ = c_ if o_ is None else self.join_env(o_, c_)
                return o_

            try:
                if elems is None:
                    env2 = dict(env)
                    self.assign(st.target, Unknown(f"iteration over {it!r}"), env2, owner)
                    out = body(env2)
                    cur = self.join_env(env, out)
                else:
                    fixed, tail = elems
                    cur = env
                    for x in fixed:
                        e2 = dict(cur)
                        self.assign(st.target, x, e2, owner)
                        o = body(e2)
                        if o is None and frame["brk"]:
                            break  # every path of this round left the loop
                        cur = o if o is not None else cur
                    if tail is not None:
                        # zero or more further iterations: two unrollings joined with the skip path
                        for _ in range(2):
                            e2 = dict(cur)
                            self.assign(st.target, tail, e2, owner)
                            o = body(e2)
                            cur = self.join_env(cur, o)
            finally:
                self._loops.pop()  # type: ignore[attr-defined]
            for b_ in frame["brk"]:
                cur = self.join_env(cur, b_)
            return cur
        if isinstance(st, ast.While):
            if not hasattr(self, "_loops"):
                self._loops = []  # type: ignore[attr-defined]
            frame = {"cont": [], "brk": []}
            self._loops.append(frame)  # type: ignore[attr-defined]
            cur = env
            try:
                for _ in range(2):
                    t, env_t, env_f = self.cond(st.test, cur, owner)
                    if t == FALSE:
                        break
                    frame["cont"] = []
                    o = self.exec_block(st.body, dict(env_t), rets, owner)
                    for c_ in frame["cont"]:
                        o = c_ if o is None else self.join_env(o, c_)
                    cur = self.join_env(cur, o) if t == MAYBE else (o if o is not None else cur)
            finally:
                self._loops.pop()  # type: ignore[attr-defined]
            for b_ in frame["brk"]:
                cur = self.join_env(cur, b_)
            return cur
        if isinstance(st, ast.FunctionDef):
            env[st.name] = FuncV(st, env, owner)  # closes over the live environment (late binding, as in Python)
            return env
        if isinstance(st, (ast.Import, ast.ImportFrom, ast.Global, ast.Nonlocal)):
            return env
        if isinstance(st, ast.Assert):
            return env
        self.unknowns.append(f"statement {type(st).__name__} at line {st.lineno}")
        return env

    def assign(self, t: ast.AST, v: V, env: Dict[str, V], owner: str):
        if isinstance(t, ast.Name):
            env[t.id] = v
            for k in [k for k in env if k.startswith("§") and t.id in k]:
                del env[k]
            return
        if isinstance(t, (ast.Tuple, ast.List)):
            n = len(t.elts)
            for alt in [v]:
                items = self.fixed_items(alt, n)
                for i, tt in enumerate(t.elts):
                    self.assign(tt, items[i] if items is not None else Unknown(f"unpack of {alt!r}"), env, owner)
            return
        if isinstance(t, ast.Attribute):
            base = self.ev(t.value, env, owner)
            for b in alts_of(base):
                if isinstance(b, Obj):
                    # property setter?
                    r = self.py.resolve_setter(b.cls, t.attr)
                    if r is not None:
                        self.call_function(r[1], [b, v], self_obj=b, owner=r[0].name)
                    else:
                        old = b.fields.get(t.attr)
                        b.fields[t.attr] = v if old is None or len(alts_of(base)) == 1 else mk_union([old, v])
            return
        if isinstance(t, ast.Subscript):
            base = self.ev(t.value, env, owner)
            if isinstance(base, Seq):
                idx = self.ev(t.slice, env, owner)
                if isinstance(idx, Const) and isinstance(idx.value, int) and 0 <= idx.value < len(base.items):
                    base.items[idx.value] = v
                else:
                    base.tail = v if base.tail is None else mk_union([base.tail, v])
            return

    def fixed_items(self, v: V, n: int) -> Optional[List[V]]:
        if isinstance(v, Operand):
            x = self.expand(v)
            return None if isinstance(x, Operand) else self.fixed_items(x, n)
        if isinstance(v, Seq):
            if len(v.items) == n:
                return list(v.items)
            if len(v.items) < n and v.tail is not None:
                return list(v.items) + [v.tail] * (n - len(v.items))
            return None
        if isinstance(v, Obj) and getattr(v, "record_fields", None):
            its_ = [v.fields.get(f_, Unknown(f"field {f_} not set")) for f_ in v.record_fields]
            return its_ if len(its_) == n else None
        if isinstance(v, Union):
            cols: List[List[V]] = [[] for _ in range(n)]
            for a in v.alts:
                it = self.fixed_items(a, n)
                if it is None:
                    return None
                for i in range(n):
                    cols[i].append(it[i])
            return [mk_union(c) for c in cols]
        return None

    def iter_elems(self, v: V) -> Optional[Tuple[List[V], Optional[V]]]:
        if isinstance(v, Operand):
            x = self.expand(v)
            return None if isinstance(x, Operand) else self.iter_elems(x)
        if isinstance(v, Seq):
            return list(v.items), v.tail
        if isinstance(v, Union):
            fixed: List[V] = []
            tails: List[V] = []
            for a in v.alts:
                r = self.iter_elems(a)
                if r is None:
                    return None
                tails.extend(r[0])
                if r[1] is not None:
                    tails.append(r[1])
            return [], (mk_union(tails) if tails else None)
        if isinstance(v, Const) and isinstance(v.value, (tuple, list)):
            return [Const(x) for x in v.value], None
        if isinstance(v, Obj) and getattr(v, "record_fields", None):
            return [v.fields.get(f_, Unknown(f"field {f_} not set")) for f_ in v.record_fields], None
        if isinstance(v, Obj):
            return None
        return None

    # -- conditions -----------------------------------------------------------
    def cond(self, t: ast.AST, env: Dict[str, V], owner: str) -> Tuple[str, Dict[str, V], Dict[str, V]]:
        """Three-valued truth + refined environments for the true / false branches."""
        env_t, env_f = dict(env), dict(env)
        if isinstance(t, ast.BoolOp):
            if isinstance(t.op, ast.And):
                res = TRUE
                cur = env
                undecided_f = []
                for v in t.values:
                    r, et, ef = self.cond(v, cur, owner)
                    if r == FALSE:
                        return FALSE, env_t, env_f
                    if r == MAYBE:
                        res = MAYBE
                        undecided_f.append(ef)
                    cur = et
                # exactly one operand can be false: the false branch knows which
                return res, cur, (undecided_f[0] if len(undecided_f) == 1 else env_f)
            else:
                res = FALSE
                cur = env
                undecided_t = []
                for v in t.values:
                    r, et, ef = self.cond(v, cur, owner)
                    if r == TRUE:
                        return TRUE, env_t, env_f
                    if r == MAYBE:
                        res = MAYBE
                        undecided_t.append(et)
                    cur = ef
                return res, (undecided_t[0] if len(undecided_t) == 1 else env_t), cur
        if isinstance(t, ast.UnaryOp) and isinstance(t.op, ast.Not):
            r, et, ef = self.cond(t.operand, env, owner)
            return ({TRUE: FALSE, FALSE: TRUE, MAYBE: MAYBE}[r], ef, et)
        # isinstance(x, C) with refinement of a plain name
        if isinstance(t, ast.Call) and isinstance(t.func, ast.Name) and t.func.id == "isinstance" and len(t.args) == 2:
            x = self.ev(t.args[0], env, owner)
            classes = self._class_names(t.args[1], env, owner)
            yes, no = [], []
            for a in alts_of(x):
                r = self.isinstance3(a, classes)
                if r == MAYBE and isinstance(a, Operand):
                    cs = self.operand_classes(a)
                    inside = frozenset(c for c in cs if self.isinstance3(Obj(c) if c in self.py.classes else Const(""), classes) == TRUE)
                    yes.append(Operand(a.rule, a.path, src=a.src, only=inside))
                    no.append(Operand(a.rule, a.path, src=a.src, only=frozenset(cs - inside)))
                    continue
                if r != FALSE:
                    yes.append(a)
                if r != TRUE:
                    no.append(a)
            res = TRUE if not no else FALSE if not yes else MAYBE
            key = t.args[0].id if isinstance(t.args[0], ast.Name) else ("§" + unparse(t.args[0]) if isinstance(t.args[0], (ast.Subscript, ast.Attribute)) else None)
            if key is not None:
                if yes:
                    env_t[key] = mk_union(yes)
                if no:
                    env_f[key] = mk_union(no)
            return res, env_t, env_f
        if isinstance(t, ast.Name) and isinstance(env.get(t.id), BoolV) and getattr(env[t.id], "recheck", None) is not None:
            return self.cond(env[t.id].recheck, env, owner)
        v = self.ev(t, env, owner)
        res = self.truth(v)
        # refinement for `x == ""`, `x != ""`, `x`, `x is None`
        name = None
        if isinstance(t, (ast.Name, ast.Attribute, ast.Subscript)):
            name = t.id if isinstance(t, ast.Name) else "§" + unparse(t)
            # (an opaque rule value that passed a truth test is not None)
            yes = [(Operand(a.rule, a.path, src=a.src, only=frozenset(self.operand_classes(a) - {"const:NoneType"})) if isinstance(a, Operand) and self.truth(a) == MAYBE and "const:NoneType" in self.operand_classes(a) else a) for a in alts_of(env.get(name, v)) if self.truth(a) != FALSE]
            # a string that counts as false is the empty string
            no = [Const("") if isinstance(a, (StrV, Tmpl)) else a for a in alts_of(env.get(name, v)) if self.truth(a) != TRUE]
            if yes:
                env_t[name] = mk_union(yes)
            if no:
                env_f[name] = mk_union(no)
        elif isinstance(t, ast.Compare) and len(t.ops) == 1 and (
            (isinstance(t.left, ast.Name) and t.left.id in env) or isinstance(t.left, (ast.Attribute, ast.Subscript))
        ):
            name = t.left.id if isinstance(t.left, ast.Name) else "§" + unparse(t.left)
            rhs = self.ev(t.comparators[0], env, owner)
            yes, no = [], []
            cur_val = env[name] if name in env else self.ev(t.left, env, owner)
            for a in alts_of(cur_val):
                r = self.compare3(a, t.ops[0], rhs)
                if r == MAYBE and isinstance(a, Operand) and isinstance(t.ops[0], (ast.Is, ast.IsNot)) and isinstance(rhs, Const) and rhs.value is None:
                    cs = self.operand_classes(a)
                    none_alt: V = Const(None)
                    rest: V = Operand(a.rule, a.path, src=a.src, only=frozenset(cs - {"const:NoneType"}))
                    if isinstance(t.ops[0], ast.Is):
                        yes.append(none_alt)
                        no.append(rest)
                    else:
                        yes.append(rest)
                        no.append(none_alt)
                    continue
                if r != FALSE:
                    yes.append(a)
                if r != TRUE:
                    no.append(a)
            if yes:
                env_t[name] = mk_union(yes)
            if no:
                env_f[name] = mk_union(no)
        return res, env_t, env_f

    def truth(self, v: V) -> str:
        if isinstance(v, Const):
            return TRUE if v.value else FALSE
        if isinstance(v, (Obj, NodeV, ClassRef, TableV)):
            return TRUE
        if isinstance(v, Operand):
            cs = self.operand_classes(v)
            if cs and all(not c.startswith("const:") and c not in ("str", "list", "num", "bool", "Unknown") for c in cs):
                return TRUE
            return MAYBE
        if isinstance(v, Seq):
            if v.items:
                return TRUE
            return FALSE if v.tail is None else MAYBE
        if isinstance(v, StrV):
            if v.lits is not None:
                b = [bool(s) for s in v.lits]
                return TRUE if all(b) else FALSE if not any(b) else MAYBE
            if getattr(v, "nonempty", False):
                return TRUE
            node0 = getattr(v, "node", None)
            if node0 is not None and not hasattr(v, "op") and not hasattr(v, "slice_of") and not hasattr(v, "concat") and not getattr(v, "full", False):
                r = self.text_can_equal(node0, "")
                return {TRUE: FALSE, FALSE: TRUE, MAYBE: MAYBE}[r]
            return MAYBE
        if isinstance(v, BoolV) and hasattr(v, "of") and isinstance(v.of[0], Operand) and v.of[1] == "is_str_expr" and self._t_stable:
            vals = self.rule_is_str(v.of[0].rule)
            if vals == {True}:
                return TRUE
            if vals == {False}:
                return FALSE
            return MAYBE
        if isinstance(v, Union):
            rs = {self.truth(a) for a in v.alts}
            if rs == {TRUE}:
                return TRUE
            if rs == {FALSE}:
                return FALSE
            return MAYBE
        return MAYBE

    def _class_names(self, n: ast.AST, env, owner) -> List[str]:
        if isinstance(n, ast.Tuple):
            out: List[str] = []
            for e in n.elts:
                out += self._class_names(e, env, owner)
            return out
        if isinstance(n, ast.Name):
            if n.id in env and isinstance(env[n.id], NodeV):
                return ["<node-object>"]  # isinstance(x, node): node is not a class
            return [n.id]
        if isinstance(n, ast.Attribute):
            return [n.attr]
        return ["?"]

    def isinstance3(self, v: V, classes: List[str]) -> str:
        def one(cname: str, c: str) -> bool:
            if c in ("str",):
                return cname in ("str",) or cname.startswith("const:str")
            if c == "int":
                return cname in ("const:int", "num")
            if c in ("List", "list"):
                return cname == "list"
            if c == "<node-object>":
                return False
            if cname in self.py.classes and c in self.py.classes:
                return self.py.is_subclass(cname, c)
            return False

        cs = self.classes_of(v)
        if not cs or "Unknown" in cs:
            return MAYBE
        if "<node-object>" in classes and len(classes) == 1:
            return FALSE  # isinstance(x, <an instance>) raises TypeError at run time; see rule G2
        rs = [any(one(cn, c) for c in classes) for cn in cs]
        if all(rs):
            return TRUE
        if not any(rs):
            return FALSE
        return MAYBE

    def compare3(self, a: V, op: ast.cmpop, b: V) -> str:
        if isinstance(op, (ast.Is, ast.IsNot)):
            if isinstance(b, Const) and b.value is None:
                if isinstance(a, Const):
                    r = a.value is None
                elif isinstance(a, Operand):
                    cs = self.operand_classes(a)
                    if "const:NoneType" not in cs:
                        r = False
                    elif cs == {"const:NoneType"}:
                        r = True
                    else:
                        return MAYBE
                elif isinstance(a, (Obj, NodeV, Seq, StrV, NumV)):
                    r = False
                else:
                    return MAYBE
                r = r if isinstance(op, ast.Is) else not r
                return TRUE if r else FALSE
            if isinstance(a, ClassRef) and isinstance(b, ClassRef):
                same_ = a.name == b.name
                return (TRUE if same_ else FALSE) if isinstance(op, ast.Is) else (FALSE if same_ else TRUE)
            if isinstance(a, StrV) or (isinstance(b, ClassRef) and not isinstance(a, Unknown)):
                # `x is str`: identity with the type object - never true for a value
                return FALSE if isinstance(op, ast.Is) else TRUE
            return MAYBE
        rng = getattr(a, "range", None)
        if rng is not None and isinstance(b, Const) and isinstance(b.value, int):
            lo, hi = rng
            k = b.value
            def within(x):
                return x >= lo and (hi is None or x <= hi)
            if isinstance(op, ast.Eq):
                return (TRUE if (lo == hi == k) else MAYBE) if within(k) else FALSE
            if isinstance(op, ast.NotEq):
                return (FALSE if (lo == hi == k) else MAYBE) if within(k) else TRUE
            if isinstance(op, ast.GtE):
                return TRUE if lo >= k else (FALSE if hi is not None and hi < k else MAYBE)
            if isinstance(op, ast.Gt):
                return TRUE if lo > k else (FALSE if hi is not None and hi <= k else MAYBE)
            if isinstance(op, ast.Lt):
                return TRUE if hi is not None and hi < k else (FALSE if lo >= k else MAYBE)
            if isinstance(op, ast.LtE):
                return TRUE if hi is not None and hi <= k else (FALSE if lo > k else MAYBE)
        if isinstance(op, (ast.Eq, ast.NotEq)):
            r = self.eq3(a, b)
            if isinstance(op, ast.NotEq):
                r = {TRUE: FALSE, FALSE: TRUE, MAYBE: MAYBE}[r]
            return r
        if isinstance(op, (ast.In, ast.NotIn)):
            r = MAYBE
            if isinstance(b, Const) and isinstance(b.value, (set, frozenset, tuple, list, str, dict)):
                if isinstance(a, Const):
                    try:
                        r = TRUE if a.value in b.value else FALSE
                    except TypeError:
                        r = FALSE
                elif isinstance(a, StrV) and a.lits is not None and not isinstance(b.value, str):
                    hits = [s in b.value for s in a.lits]
                    r = TRUE if all(hits) else FALSE if not any(hits) else MAYBE
                elif isinstance(a, StrV) and getattr(a, "node", None) is not None and not hasattr(a, "op") and not getattr(a, "full", False) and isinstance(b.value, (set, frozenset, tuple, list)):
                    hits = [self.text_can_equal(a.node, s) for s in b.value if isinstance(s, str)]
                    r = FALSE if all(h == FALSE for h in hits) else MAYBE
                elif isinstance(a, (Obj, NodeV, Operand)):
                    r = FALSE
            elif isinstance(b, Seq) and isinstance(a, Const):
                members = b.items + ([b.tail] if b.tail is not None else [])
                could = False
                for m in members:
                    for x in alts_of(m):
                        if self.eq3(a, x) != FALSE:
                            could = True
                r = MAYBE if could else FALSE
            if isinstance(op, ast.NotIn):
                r = {TRUE: FALSE, FALSE: TRUE, MAYBE: MAYBE}[r]
            return r
        if isinstance(op, (ast.Gt, ast.GtE, ast.Lt, ast.LtE)):
            if isinstance(a, Const) and isinstance(b, Const):
                try:
                    r = {ast.Gt: a.value > b.value, ast.GtE: a.value >= b.value, ast.Lt: a.value < b.value, ast.LtE: a.value <= b.value}[type(op)]
                    return TRUE if r else FALSE
                except TypeError:
                    return MAYBE
            return MAYBE
        return MAYBE

    def eq3(self, a: V, b: V) -> str:
        if isinstance(a, Union) or isinstance(b, Union):
            rs = {self.eq3(x, y) for x in alts_of(a) for y in alts_of(b)}
            return TRUE if rs == {TRUE} else FALSE if rs == {FALSE} else MAYBE
        if isinstance(a, Const) and isinstance(b, Const):
            return TRUE if a.value == b.value else FALSE
        if isinstance(a, StrV) and isinstance(b, Const):
            a, b = b, a
        if isinstance(a, Const) and isinstance(b, StrV):
            if not isinstance(a.value, str):
                return FALSE
            if a.value == "" and getattr(b, "nonempty", False):
                return FALSE
            node0 = getattr(b, "node", None)
            if node0 is not None and not hasattr(b, "op") and not hasattr(b, "slice_of") and not getattr(b, "full", False):
                return self.text_can_equal(node0, a.value)
            if b.lits is not None:
                if b.lits == {a.value}:
                    return TRUE
                return MAYBE if a.value in b.lits else FALSE
            return MAYBE
        if isinstance(a, Const) and isinstance(b, (Obj, NodeV, Seq)):
            return FALSE
        if isinstance(b, Const) and isinstance(a, (Obj, NodeV, Seq)):
            return FALSE
        if isinstance(a, Operand) and isinstance(b, Const):
            a, b = b, a
        if isinstance(a, Const) and isinstance(b, Operand):
            cs = self.operand_classes(b)
            tag = "const:" + type(a.value).__name__
            if not any(c.startswith(tag) or c in ("str", "num", "Unknown") for c in cs):
                return FALSE
            return MAYBE
        return MAYBE

    # -- expressions ------------------------------------------------------------
    def ev(self, n: ast.AST, env: Dict[str, V], owner: str) -> V:
        m = getattr(self, "ev_" + type(n).__name__, None)
        if m is None:
            self.unknowns.append(f"expression {type(n).__name__} at line {getattr(n, 'lineno', 0)}")
            return Unknown(f"expression {type(n).__name__}")
        return m(n, env, owner)

    def ev_Constant(self, n, env, owner):
        return Const(n.value)

    def ev_Name(self, n, env, owner):
        if n.id in env:
            return env[n.id]
        if n.id in self.py.classes:
            return ClassRef(n.id)
        if n.id in self.tables:
            return TableV(n.id, self.tables[n.id])
        if n.id in ("str", "int", "float", "list", "List", "tuple", "bool"):
            return ClassRef(n.id)
        if n.id in ("True", "False", "None"):
            return Const({"True": True, "False": False, "None": None}[n.id])
        # module-level constant of the defining module
        for rel in ("coco/b09/elements.py", "coco/b09/parser.py", "coco/b09/visitors.py", "coco/b09/__init__.py"):
            mod = self.py.modules.get(rel)
            if mod and n.id in mod.assigns:
                try:
                    return Const(ast.literal_eval(mod.assigns[n.id]))
                except Exception:
                    pass
                av = mod.assigns[n.id]
                if isinstance(av, ast.Call) and isinstance(av.func, ast.Name) and av.func.id in ("frozenset", "set", "tuple", "list") and len(av.args) == 1 and not av.keywords:
                    try:
                        return Const({"frozenset": frozenset, "set": frozenset, "tuple": tuple, "list": tuple}[av.func.id](ast.literal_eval(av.args[0])))
                    except Exception:
                        pass
        if n.id == "DEFAULT_STR_STORAGE":
            return NumV("DEFAULT_STR_STORAGE")
        # any other module-level binding of the defining modules: evaluated abstractly, once
        for rel in ("coco/b09/parser.py", "coco/b09/elements.py", "coco/b09/visitors.py"):
            mod = self.py.modules.get(rel)
            if mod and n.id in mod.assigns:
                key_ = (rel, n.id)
                if key_ in self._modconst:
                    return self._modconst[key_]
                self._modconst[key_] = Unknown(f"recursive module constant {n.id}")
                v_ = self.ev(mod.assigns[n.id], {}, owner)
                self._modconst[key_] = v_
                return v_
        return Unknown(f"name {n.id}")

    def ev_JoinedStr(self, n, env, owner):
        vals: List[Any] = []
        for v in n.values:
            if isinstance(v, ast.Constant):
                vals.append(str(v.value))
            else:
                x_ = self.ev(v.value, env, owner)
                spec = getattr(v, "format_spec", None)
                conv = getattr(v, "conversion", -1)
                if (spec is not None or conv != -1) and isinstance(x_, Const):
                    try:
                        if isinstance(spec, ast.Constant):  # a folded format spec
                            spec = ast.JoinedStr(values=[spec])
                        sp_ = "".join(str(c.value) for c in spec.values) if spec is not None and all(isinstance(c, ast.Constant) for c in spec.values) else (None if spec is not None else "")
                        if sp_ is not None:
                            val_ = x_.value
                            if conv == ord("r"):
                                val_ = repr(val_)
                            elif conv == ord("s"):
                                val_ = str(val_)
                            x_ = Const(format(val_, sp_))
                        else:
                            x_ = StrV(None, "formatted")
                    except Exception:
                        x_ = StrV(None, "formatted")
                elif spec is not None or conv != -1:
                    x_ = StrV(None, "formatted") if not isinstance(x_, (Operand, Obj)) else x_
                vals.append(x_)
        lits = [frozenset([x]) if isinstance(x, str) else self.str_lits(x) for x in vals]
        if all(p is not None for p in lits):
            acc = {""}
            ok = True
            for p in lits:
                acc = {a + b for a in acc for b in p}
                if len(acc) > 64:
                    ok = False
                    break
            if ok:
                if len(acc) == 1:
                    return Const(next(iter(acc)))
                return StrV(frozenset(acc), "f-string")
        parts: List[Any] = []
        for x in vals:
            if isinstance(x, str):
                parts.append(x)
            else:
                tp = tmpl_parts(x)
                parts.extend(tp if tp is not None else [x])
        return mk_tmpl(parts)

    def str_lits(self, x: V) -> Optional[FrozenSet[str]]:
        if isinstance(x, Const):
            return frozenset([str(x.value)])
        if isinstance(x, StrV):
            return x.lits
        if isinstance(x, Union):
            acc: Set[str] = set()
            for a in x.alts:
                l = self.str_lits(a)
                if l is None:
                    return None
                acc |= l
            return frozenset(acc)
        return None

    def ev_List(self, n, env, owner):
        return self._display(n.elts, env, owner)

    def ev_Tuple(self, n, env, owner):
        v = self._display(n.elts, env, owner)
        if isinstance(v, Seq):
            v.kind = "tuple"
        return v

    def ev_Set(self, n, env, owner):
        vals = [self.ev(e, env, owner) for e in n.elts]
        if all(isinstance(v, Const) for v in vals):
            return Const(frozenset(v.value for v in vals))
        return Unknown("set display")

    def ev_Dict(self, n, env, owner):
        if all(k is not None for k in n.keys):
            ks = [self.ev(k, env, owner) for k in n.keys]
            if all(isinstance(k, Const) for k in ks):
                try:
                    return MapV({k.value: self.ev(v, env, owner) for k, v in zip(ks, n.values)})
                except TypeError:
                    pass
        return Unknown("dict display")

    def ev_DictComp(self, n, env, owner):
        return Unknown("dict comprehension")

    def ev_SetComp(self, n, env, owner):
        return Unknown("set comprehension")

    def ev_Lambda(self, n, env, owner):
        return FuncV(n, dict(env), owner)

    def apply_func(self, f: "FuncV", args: List[V], kwargs: Optional[Dict[str, V]] = None) -> V:
        """Call a lambda / nested function value."""
        node = f.node
        if isinstance(node, ast.Lambda):
            env = dict(f.env)
            params = node.args.args
            for i, a in enumerate(params):
                env[a.arg] = args[i] if i < len(args) else Unknown(f"missing argument {a.arg}")
            if node.args.vararg is not None:
                env[node.args.vararg.arg] = Seq(list(args[len(params):]))
            return self.ev(node.body, env, f.owner)
        if isinstance(node, ast.FunctionDef):
            return self.call_function(node, args, self_obj=None, owner=f.owner, kwargs=kwargs, outer=f.env)
        return Unknown("call of a function value")

    def _display(self, elts, env, owner, _pre: Optional[Dict[int, V]] = None) -> V:
        items: List[V] = []
        tail: Optional[V] = None
        pre = _pre or {}
        for ei, e in enumerate(elts):
            if isinstance(e, ast.Starred):
                v = pre[ei] if ei in pre else self.ev(e.value, env, owner)
                # a starred value that is one of several fixed lists: one display per alternative (keeps the order)
                if isinstance(v, Const) and isinstance(v.value, (str, tuple, list)) and len(v.value) <= 8:
                    v = Seq([Const(x_) for x_ in v.value])  # iterating a constant string / tuple
                if isinstance(v, Union) and 1 < len(v.alts) <= 4 and all((isinstance(a_, Seq) and a_.tail is None) or (isinstance(a_, Const) and isinstance(a_.value, (str, tuple, list)) and len(a_.value) <= 8) for a_ in v.alts) and len(pre) < 3:
                    outs = []
                    for a_ in v.alts:
                        p2 = dict(pre)
                        p2[ei] = a_
                        outs.append(self._display(elts, env, owner, p2))
                    return mk_union(outs)
                r = self.iter_elems(v)
                if r is None:
                    tail = mk_union(([tail] if tail is not None else []) + [Unknown(f"star of {v!r}")])
                    continue
                fixed, t = r
                if tail is None:
                    items.extend(fixed)
                else:
                    tail = mk_union([tail] + fixed)
                if t is not None:
                    tail = t if tail is None else mk_union([tail, t])
            else:
                v = self.ev(e, env, owner)
                if tail is None:
                    items.append(v)
                else:
                    tail = mk_union([tail, v])
        return Seq(items, tail)

    def split_var(self, test: ast.AST, env: Dict[str, V]) -> Optional[str]:
        k = id(test)
        hit = self._split_cache.get(k)
        if hit is None or hit[0] is not test:
            hit = self._split_cache[k] = (test, [x.id for x in ast.walk(test) if isinstance(x, ast.Name)])
        for nm in hit[1]:
            v = env.get(nm)
            if isinstance(v, Union) and 1 < len(v.alts) <= 8:
                return nm
        return None

    def ev_IfExp(self, n, env, owner):
        sv = self.split_var(n.test, env)
        if sv is not None:
            outs = []
            for a in env[sv].alts:
                e2 = dict(env)
                e2[sv] = a
                outs.append(self.ev_IfExp(n, e2, owner))
            return mk_union(outs)
        t, et, ef = self.cond(n.test, env, owner)
        if t == TRUE:
            return self.ev(n.body, et, owner)
        if t == FALSE:
            return self.ev(n.orelse, ef, owner)
        return mk_union([self.ev(n.body, et, owner), self.ev(n.orelse, ef, owner)])

    def ev_BoolOp(self, n, env, owner):
        t, _, _ = self.cond(n, env, owner)
        if t == TRUE and isinstance(n.op, ast.Or):
            # value of `a or b` when a truthy: a
            pass
        vals = [self.ev(v, env, owner) for v in n.values]
        if t == TRUE and isinstance(n.op, ast.Or):
            # the first operand that is true decides; operands known to be false are passed over
            out = []
            for i_, (sub, v) in enumerate(zip(n.values, vals)):
                tt = self.cond(sub, env, owner)[0]
                if tt == FALSE and i_ < len(vals) - 1:
                    continue
                out.append(v)
                if tt == TRUE:
                    break
            return mk_union(out)
        if t == TRUE:
            return BoolV("true") if not isinstance(n.op, ast.Or) else mk_union(vals)
        if t == FALSE:
            return Const(False)
        return mk_union(vals) if isinstance(n.op, ast.Or) else BoolV(unparse(n))

    def ev_UnaryOp(self, n, env, owner):
        if isinstance(n.op, ast.Not):
            t, _, _ = self.cond(n.operand, env, owner)
            return Const(t == FALSE) if t != MAYBE else BoolV(unparse(n))
        v = self.ev(n.operand, env, owner)
        if isinstance(v, Const) and isinstance(v.value, (int, float)) and isinstance(n.op, ast.USub):
            return Const(-v.value)
        return NumV(unparse(n))

    def ev_Compare(self, n, env, owner):
        if len(n.ops) != 1:
            return BoolV(unparse(n))
        a = self.ev(n.left, env, owner)
        b = self.ev(n.comparators[0], env, owner)
        rs = {self.compare3(x, n.ops[0], b) for x in alts_of(a)}
        if rs == {TRUE}:
            return Const(True)
        if rs == {FALSE}:
            return Const(False)
        return BoolV(unparse(n))

    def ev_BinOp(self, n, env, owner):
        a, b = self.ev(n.left, env, owner), self.ev(n.right, env, owner)
        # positions relative to the node: node.start + k, node.end - k, text.find(c) + k
        if isinstance(n.op, (ast.Add, ast.Sub)) and isinstance(a, NumV) and isinstance(b, Const) and isinstance(b.value, int):
            k = b.value if isinstance(n.op, ast.Add) else -b.value
            if hasattr(a, "rel"):
                nv = NumV(unparse(n))
                nv.node = getattr(a, "node", None)  # type: ignore[attr-defined]
                nv.rel = (a.rel[0], a.rel[1] + k)  # type: ignore[attr-defined]
                return nv
            if hasattr(a, "op") and a.op[0] == "find":
                nv = NumV(unparse(n))
                nv.find = (a.op[1], a.op[2], k)  # type: ignore[attr-defined]
                return nv
        if isinstance(n.op, ast.Add):
            if isinstance(a, Operand) and isinstance(b, Seq):
                a = self.expand(a)
            if isinstance(b, Operand) and isinstance(a, Seq):
                b = self.expand(b)
            if isinstance(a, Seq) and isinstance(b, Seq):
                if a.tail is None:
                    return Seq(a.items + b.items, b.tail)
                return Seq(list(a.items), mk_union([a.tail] + b.items + ([b.tail] if b.tail is not None else [])))
            if isinstance(a, Seq) and isinstance(b, Union):
                return mk_union([self._add_seq(a, x) for x in b.alts])
            if isinstance(a, Union) and isinstance(b, Seq):
                return mk_union([self._add_seq(x, b) for x in a.alts])
            if isinstance(a, Tmpl) or isinstance(b, Tmpl):
                pa, pb = tmpl_parts(a), tmpl_parts(b)
                if pa is not None and pb is not None:
                    return mk_tmpl(pa + pb)
            if (isinstance(a, Const) and isinstance(a.value, str) and isinstance(b, (Union, Unknown, Operand))) or (isinstance(b, Const) and isinstance(b.value, str) and isinstance(a, (Union, Unknown, Operand))):
                pa, pb = tmpl_parts(a), tmpl_parts(b)
                if pa is not None and pb is not None:
                    return mk_tmpl(pa + pb)
            la, lb = self.str_lits(a), self.str_lits(b)
            if isinstance(a, (Const, StrV)) and isinstance(b, (Const, StrV)) and (isinstance(a, StrV) or isinstance(a.value, str)):
                if la is not None and lb is not None and len(la) * len(lb) <= 64:
                    s = frozenset(x + y for x in la for y in lb)
                    return Const(next(iter(s))) if len(s) == 1 else StrV(s)
                sv = StrV(None, unparse(n))
                sv.concat = (a, b)  # type: ignore[attr-defined]
                return sv
            if isinstance(a, Const) and isinstance(b, Const):
                try:
                    return Const(a.value + b.value)
                except Exception:
                    return Unknown("+")
            if isinstance(a, (NumV, Const)) and isinstance(b, (NumV, Const)):
                return NumV(unparse(n))
            return Unknown(f"+ of {a!r} and {b!r}")
        if isinstance(a, Const) and isinstance(b, Const):
            try:
                import operator

                opf = {ast.Sub: operator.sub, ast.Mult: operator.mul, ast.FloorDiv: operator.floordiv, ast.Mod: operator.mod}.get(type(n.op))
                if opf:
                    return Const(opf(a.value, b.value))
            except Exception:
                pass
        if isinstance(n.op, ast.Mult) and isinstance(a, Seq) and isinstance(b, (Const, NumV)):
            return Seq([], mk_union(a.items + ([a.tail] if a.tail is not None else [])) if (a.items or a.tail is not None) else None)
        return NumV(unparse(n))

    def _add_seq(self, a: V, b: V) -> V:
        if isinstance(a, Seq) and isinstance(b, Seq):
            if a.tail is None:
                return Seq(a.items + b.items, b.tail)
            return Seq(list(a.items), mk_union([a.tail] + b.items + ([b.tail] if b.tail is not None else [])))
        return Unknown(f"+ of {a!r} and {b!r}")

    def ev_Attribute(self, n, env, owner):
        k = "§" + unparse(n)
        if k in env:
            return env[k]
        base = self.ev(n.value, env, owner)
        return mk_union([self.getattr(b, n.attr, owner) for b in alts_of(base)])

    def _class_constant(self, cls: str, attr: str) -> Optional[V]:
        """A constant assigned in the body of a class (or of a base class)."""
        for ci in self.py.mro(cls):
            for st in ci.node.body:
                tgt = None
                if isinstance(st, ast.Assign) and len(st.targets) == 1 and isinstance(st.targets[0], ast.Name):
                    tgt, val = st.targets[0].id, st.value
                elif isinstance(st, ast.AnnAssign) and isinstance(st.target, ast.Name) and st.value is not None:
                    tgt, val = st.target.id, st.value
                if tgt == attr:
                    try:
                        return Const(ast.literal_eval(val))
                    except Exception:
                        return None
        return None

    def getattr(self, b: V, attr: str, owner: str) -> V:
        if isinstance(b, NodeV):
            if attr == "text":
                blank, lits = self.text_info(b)
                sv = StrV(lits, f"text of {b.desc}")
                sv.node = b  # type: ignore[attr-defined]
                return sv
            if attr == "full_text":
                sv = StrV(None, "full_text")
                sv.node = b  # type: ignore[attr-defined]
                sv.full = True  # type: ignore[attr-defined]
                return sv
            if attr in ("start", "end"):
                nv = NumV(f"node.{attr}")
                nv.node = b  # type: ignore[attr-defined]
                nv.which = attr  # type: ignore[attr-defined]
                nv.rel = (attr, 0)  # type: ignore[attr-defined]
                return nv
            if attr == "children":
                return Unknown("node.children")
            if attr not in ("expr", "expr_name", "prettily", "match"):
                # not an attribute of a parse node: the real program raises AttributeError here
                if not hasattr(self, "node_attr_errors"):
                    self.node_attr_errors = []  # type: ignore[attr-defined]
                rec = (b.desc, attr, self.text_info(b)[1])
                if rec not in self.node_attr_errors:  # type: ignore[attr-defined]
                    self.node_attr_errors.append(rec)  # type: ignore[attr-defined]
            return Unknown(f"node.{attr}")
        if isinstance(b, Obj):
            if attr in b.fields:
                return b.fields[attr]
            r = self.py.resolve_property(b.cls, attr)
            if r is not None:
                return self.call_function(r[1], [b], self_obj=b, owner=r[0].name)
            rm = self.py.resolve_method(b.cls, attr)
            if rm is not None:
                bm = Unknown(f"bound method {b.cls}.{attr}")
                bm.bound = (b, rm)  # type: ignore[attr-defined]
                return bm
            cv = self._class_constant(b.cls, attr)
            if cv is not None:
                return cv
            # class-level annotation only / attribute never set
            return Unknown(f"{b.cls}.{attr} not set")
        if isinstance(b, ClassRef) and b.name in self.py.classes:
            cv = self._class_constant(b.name, attr)
            if cv is not None:
                return cv
        if isinstance(b, Operand) and attr not in self.PASSIVE_ATTRS:
            x = self.expand(b)
            if not isinstance(x, Operand):
                return mk_union([self.getattr(a, attr, owner) for a in alts_of(x)])
        if isinstance(b, Operand):
            # attribute of an opaque operand: decide from its class set
            cs = sorted(self.operand_classes(b))
            vals: List[V] = []
            have_of = False
            have_str = False
            for c in cs:
                if c in self.py.classes:
                    if attr == "is_str_expr":
                        if not have_str:
                            vals.append(self.static_is_str(c, b))
                            have_str = True
                    elif self.py.resolve_property(c, attr) or self.py.resolve_method(c, attr):
                        if have_of:
                            continue
                        have_of = True
                        o = Unknown(f"{attr} of {b!r}")
                        o.of = (b, attr)  # type: ignore[attr-defined]
                        vals.append(o)
                    else:
                        o = Unknown(f"{c} (from {b.rule}) has no attribute {attr}")
                        o.missing_attr = (c, attr)  # type: ignore[attr-defined]
                        vals.append(o)
                else:
                    o = Unknown(f"{c} (from {b.rule}) has no attribute {attr}")
                    o.missing_attr = (c, attr)  # type: ignore[attr-defined]
                    vals.append(o)
            return mk_union(vals) if vals else Unknown(f"{attr} of {b!r}")
        if isinstance(b, Const) and b.value is None:
            o = Unknown(f"None.{attr}")
            o.missing_attr = ("NoneType", attr)  # type: ignore[attr-defined]
            return o
        if isinstance(b, (Const, StrV)):
            bm = Unknown(f"str method {attr}")
            bm.bound_str = (b, attr)  # type: ignore[attr-defined]
            return bm
        if isinstance(b, Seq):
            bm = Unknown(f"list method {attr}")
            bm.bound_seq = (b, attr)  # type: ignore[attr-defined]
            return bm
        if isinstance(b, Unknown) and hasattr(b, "rematch") and attr == "group":
            bm = Unknown("match.group")
            bm.bound_group = b.rematch  # type: ignore[attr-defined]
            return bm
        if isinstance(b, ClassRef):
            r = self.py.resolve_method(b.name, attr)
            if r is not None:
                bm = Unknown(f"classmethod {b.name}.{attr}")
                bm.bound_cls = (b.name, r)  # type: ignore[attr-defined]
                return bm
        if isinstance(b, TableV):
            bm = Unknown(f"dict method {attr}")
            bm.bound_tbl = (b, attr)  # type: ignore[attr-defined]
            return bm
        if (isinstance(b, MapV) or (isinstance(b, Const) and isinstance(b.value, dict))) and attr == "get":
            bm = Unknown("dict.get")
            bm.bound_map = b  # type: ignore[attr-defined]
            return bm
        return Unknown(f"attribute {attr} of {b!r}")

    def static_is_str(self, cls: str, b: Operand) -> V:
        bv = BoolV(f"{b!r}.is_str_expr")
        bv.of = (b, "is_str_expr")  # type: ignore[attr-defined]
        return bv

    def rule_is_str(self, rule: str) -> Set[Any]:
        """Possible values of `.is_str_expr` over everything rule `rule` can build (True/False/'?')."""
        if rule in self._is_str_cache:
            return self._is_str_cache[rule]
        if rule in self._is_str_stack:
            return set()
        outermost = not self._is_str_stack
        self._is_str_stack.append(rule)
        try:
            out: Set[Any] = set()
            v = self.eval_rule(rule, (), top=True)
            for a in alts_of(v):
                if isinstance(a, Operand):
                    out |= self.rule_is_str(a.rule)
                elif isinstance(a, Obj):
                    x = self.getattr(a, "is_str_expr", a.cls)
                    for y in alts_of(x):
                        if isinstance(y, Const) and isinstance(y.value, bool):
                            out.add(y.value)
                        elif isinstance(y, BoolV) and hasattr(y, "of") and isinstance(y.of[0], Operand):
                            out |= self.rule_is_str(y.of[0].rule)
                        else:
                            out.add("?")
                elif isinstance(a, Const) and a.value == "":
                    continue
                else:
                    out.add("?")
        finally:
            self._is_str_stack.pop()
        if outermost:
            self._is_str_cache[rule] = out
        return out

    def ev_Subscript(self, n, env, owner):
        k = "§" + unparse(n)
        if k in env:
            return env[k]
        base = self.ev(n.value, env, owner)
        outs = []
        for b in alts_of(base):
            outs.append(self.subscript(b, n.slice, env, owner))
        return mk_union(outs)

    def subscript(self, b: V, sl: ast.AST, env, owner) -> V:
        if isinstance(b, Operand):
            x = self.expand(b)
            if not isinstance(x, Operand):
                return mk_union([self.subscript(a, sl, env, owner) for a in alts_of(x)])
        if isinstance(b, MapV) and not isinstance(sl, ast.Slice):
            k = self.ev(sl, env, owner)
            keys = None
            if isinstance(k, Const):
                keys = [k.value]
            else:
                l_ = self.str_lits(k)
                keys = sorted(l_) if l_ is not None else None
            if keys is None:
                return mk_union(list(b.items.values())) if b.items else Unknown("lookup in an empty dict")
            outs_ = []
            for kk in keys:
                if kk in b.items:
                    outs_.append(b.items[kk])
                else:
                    o_ = Unknown(f"KeyError {kk!r}")
                    o_.keyerror = ("<dict>", kk)  # type: ignore[attr-defined]
                    outs_.append(o_)
            return mk_union(outs_)
        if isinstance(b, TableV):
            k = self.ev(sl, env, owner)
            lits = self.str_lits(k)
            if lits is not None:
                vals = []
                for s in sorted(lits):
                    if s in b.table:
                        vals.append(Const(b.table[s]))
                    else:
                        o = Unknown(f"KeyError {b.name}[{s!r}]")
                        o.keyerror = (b.name, s)  # type: ignore[attr-defined]
                        vals.append(o)
                return mk_union(vals)
            return mk_union([Const(v) for v in b.table.values()])
        if isinstance(sl, ast.Slice):
            lo = self.ev(sl.lower, env, owner) if sl.lower is not None else Const(None)
            hi = self.ev(sl.upper, env, owner) if sl.upper is not None else Const(None)
            step = self.ev(sl.step, env, owner) if sl.step is not None else Const(None)
            if isinstance(b, Seq):
                if isinstance(lo, Const) and isinstance(hi, Const) and isinstance(step, Const) and b.tail is None:
                    return Seq(b.items[lo.value : hi.value : step.value], None)
                if not (isinstance(step, Const) and step.value in (None, 1)):
                    return Seq([], mk_union(b.items + ([b.tail] if b.tail is not None else [])) if (b.items or b.tail is not None) else None)
                if isinstance(lo, Const) and isinstance(hi, Const) and b.tail is None:
                    return Seq(b.items[lo.value : hi.value], None)
                if isinstance(lo, Const) and isinstance(hi, Const) and hi.value is not None and hi.value >= 0 and (lo.value or 0) >= 0:
                    its = list(b.items) + ([b.tail] * max(0, hi.value - len(b.items)) if b.tail is not None else [])
                    got = its[lo.value : hi.value]
                    fixed_n = max(0, min(len(b.items), hi.value) - (lo.value or 0))
                    return Seq(got[:fixed_n], mk_union(got[fixed_n:]) if got[fixed_n:] else None, opt=len(got[fixed_n:]) == 1)
                if isinstance(lo, Const) and (hi is None or (isinstance(hi, Const) and hi.value is None)):
                    k = lo.value or 0
                    return Seq(b.items[k:], b.tail)
                return Seq([], mk_union(b.items + ([b.tail] if b.tail is not None else [])) if (b.items or b.tail is not None) else None)
            if isinstance(b, (StrV, Const)):
                return self.str_slice(b, lo, hi)
            return Unknown(f"slice of {b!r}")
        idx = self.ev(sl, env, owner)
        if hasattr(b, "split_of") and isinstance(idx, Const):
            meth, base, sargs = b.split_of
            # s.split(sep, 1)[-1] == s.partition(sep)[2] (when sep occurs) == s[s.find(sep) + 1:] for a one-character sep
            if isinstance(sargs[0], str) and len(sargs[0]) == 1 and ((meth == "split" and sargs[1:] == [1] and idx.value in (-1,)) ):
                f_ = NumV(".find()")
                f_.op = ("find", base, [Const(sargs[0])])  # type: ignore[attr-defined]
                lo = NumV("find + 1")
                lo.find = (base, [Const(sargs[0])], 1)  # type: ignore[attr-defined]
                return self.str_slice(base, lo, Const(None))
            return Unknown(f"element of str.{meth}")
        if isinstance(b, Seq):
            if isinstance(idx, Const) and isinstance(idx.value, int):
                i = idx.value
                if 0 <= i < len(b.items):
                    return b.items[i]
                if i >= 0 and b.tail is not None:
                    return b.tail
                if i < 0 and b.tail is None and -i <= len(b.items):
                    return b.items[i]
                o = Unknown(f"IndexError [{i}] of {b!r}")
                o.indexerror = True  # type: ignore[attr-defined]
                return o
            return mk_union(b.items + ([b.tail] if b.tail is not None else [])) if (b.items or b.tail is not None) else Unknown("index of empty list")
        if isinstance(b, Const) and isinstance(b.value, (str, tuple, list)) and isinstance(idx, Const):
            try:
                return Const(b.value[idx.value])
            except Exception:
                return Unknown("const index")
        if isinstance(b, (StrV,)):
            return StrV(None, "char")
        return Unknown(f"subscript of {b!r}")

    def str_slice(self, b: V, lo: V, hi: V) -> V:
        sv = StrV(None, "slice")
        if isinstance(b, Const) and isinstance(b.value, str) and isinstance(lo, Const) and isinstance(hi, Const):
            return Const(b.value[lo.value : hi.value])
        if isinstance(b, StrV) and b.lits is not None and isinstance(lo, Const) and isinstance(hi, Const):
            return StrV(frozenset(s[lo.value : hi.value] for s in b.lits))
        # node.full_text[node.start : node.end] == node.text ; with constant offsets
        node = getattr(b, "node", None)
        sv.slice_of = (b, lo, hi)  # type: ignore[attr-defined]
        if node is not None:
            sv.node = node  # type: ignore[attr-defined]
        return sv

    def ev_Starred(self, n, env, owner):
        return self.ev(n.value, env, owner)

    def ev_ListComp(self, n, env, owner):
        return self._comp(n, env, owner)

    def ev_GeneratorExp(self, n, env, owner):
        v = self._comp(n, env, owner)
        if isinstance(v, Seq):
            v.kind = "generator"
        return v

    def _comp(self, n, env, owner) -> V:
        if len(n.generators) != 1:
            return Unknown("nested comprehension")
        g = n.generators[0]
        it = self.ev(g.iter, env, owner)
        r = self.iter_elems(it)
        if r is None:
            return Seq([], Unknown(f"comprehension over {it!r}"))
        fixed, tail = r
        out_items: List[V] = []
        exact = True
        for x in fixed:
            e2 = dict(env)
            self.assign(g.target, x, e2, owner)
            keep = TRUE
            for c in g.ifs:
                t, et, ef = self.cond(c, e2, owner)
                e2 = et
                if t == FALSE:
                    keep = FALSE
                    break
                if t == MAYBE:
                    keep = MAYBE
            if keep == FALSE:
                continue
            v = self.ev(n.elt, e2, owner)
            if keep == MAYBE:
                exact = False
            out_items.append(v)
        out_tail = None
        if tail is not None:
            for x in alts_of(tail):
                e2 = dict(env)
                self.assign(g.target, x, e2, owner)
                keep = TRUE
                for c in g.ifs:
                    t, et, ef = self.cond(c, e2, owner)
                    e2 = et
                    if t == FALSE:
                        keep = FALSE
                        break
                if keep == FALSE:
                    continue
                v = self.ev(n.elt, e2, owner)
                out_tail = v if out_tail is None else mk_union([out_tail, v])
        if not exact:
            return Seq([], mk_union(out_items + ([out_tail] if out_tail is not None else [])))
        return Seq(out_items, out_tail)

    # -- calls ----------------------------------------------------------------
    def ev_Call(self, n: ast.Call, env, owner):
        f = n.func
        args = []
        for a in n.args:
            if isinstance(a, ast.Starred):
                v = self.ev(a.value, env, owner)
                r = self.iter_elems(v)
                if r is None or r[1] is not None:
                    return Unknown("star args")
                args.extend(r[0])
            else:
                args.append(self.ev(a, env, owner))
        kwargs = {k.arg: self.ev(k.value, env, owner) for k in n.keywords if k.arg}
        if isinstance(f, ast.Name):
            name = f.id
            if name in env and isinstance(env[name], ClassRef) and env[name].name in self.py.classes:
                return self.construct(env[name].name, args, kwargs, n.lineno, owner)
            if name in env and isinstance(env[name], Union) and all(isinstance(a_, ClassRef) and a_.name in self.py.classes for a_ in env[name].alts):
                return mk_union([self.construct(a_.name, list(args), dict(kwargs), n.lineno, owner) for a_ in env[name].alts])
            if name in env and isinstance(env[name], FuncV):
                return self.apply_func(env[name], args, kwargs)
            if name in env and isinstance(env[name], Union) and all(isinstance(a_, FuncV) for a_ in env[name].alts):
                return mk_union([self.apply_func(a_, args, kwargs) for a_ in env[name].alts])
            if name in env and not isinstance(env[name], ClassRef):
                return Unknown(f"call of local {name}")
            if name == "reduce" and len(args) in (2, 3) and isinstance(args[0], FuncV):
                r = self.iter_elems(args[1])
                if r is None:
                    return Unknown("reduce over an unknown sequence")
                fixed, tail = r
                if len(args) == 3:
                    acc = args[2]
                elif fixed:
                    acc, fixed = fixed[0], fixed[1:]
                else:
                    return Unknown("reduce without initial value")
                for x in fixed:
                    acc = self.apply_func(args[0], [acc, x])
                if tail is not None:
                    outs = [acc]
                    for _ in range(2):
                        acc = self.apply_func(args[0], [mk_union(outs) if len(outs) > 1 else acc, tail])
                        outs.append(acc)
                    return mk_union(outs)
                return acc
            if name in self.py.classes:
                return self.construct(name, args, kwargs, n.lineno, owner)
            if name == "isinstance":
                t, _, _ = self.cond(n, env, owner)
                if t != MAYBE:
                    return Const(t == TRUE)
                bv = BoolV(unparse(n))
                bv.recheck = n  # type: ignore[attr-defined]
                return bv
            if name == "type" and len(args) == 1:
                a0_ = args[0]
                if isinstance(a0_, Const):
                    return ClassRef(type(a0_.value).__name__)
                if isinstance(a0_, (StrV, Tmpl)):
                    return ClassRef("str")
                if isinstance(a0_, Obj):
                    return ClassRef(a0_.cls)
                return Unknown("type()")
            if name == "len" and args:
                a = args[0]
                if isinstance(a, Operand):
                    a = self.expand(a)
                if isinstance(a, Union):
                    outs = []
                    for x in a.alts:
                        if isinstance(x, Seq) and x.tail is None:
                            outs.append(Const(len(x.items)))
                        elif isinstance(x, Const) and hasattr(x.value, "__len__"):
                            outs.append(Const(len(x.value)))
                        else:
                            outs.append(NumV("len"))
                    return mk_union(outs)
                if isinstance(a, Seq) and a.tail is None:
                    return Const(len(a.items))
                if isinstance(a, Const) and hasattr(a.value, "__len__"):
                    return Const(len(a.value))
                nv = NumV("len")
                nv.len_of = a  # type: ignore[attr-defined]
                if isinstance(a, Seq):
                    lo = len(a.items)
                    nv.range = (lo, lo + 1 if a.opt else None)  # type: ignore[attr-defined]
                return nv
            if name == "next" and args:
                r = self.iter_elems(args[0])
                if r is None:
                    return Unknown("next()")
                alts = r[0] + ([r[1]] if r[1] is not None else [])
                return mk_union(alts) if alts else Unknown("next of empty")
            if name in ("str",) and args:
                if isinstance(args[0], (StrV, Tmpl)) or (isinstance(args[0], Const) and isinstance(args[0].value, str)):
                    return args[0]
                if isinstance(args[0], Const) and isinstance(args[0].value, (int, float)) and not isinstance(args[0].value, bool):
                    return Const(str(args[0].value))
                l = self.str_lits(args[0])
                sv = StrV(l, "str()")
                sv.str_of = args[0]  # type: ignore[attr-defined]
                return sv
            if name in ("int", "float") and args and all(isinstance(a_, Const) for a_ in args):
                try:
                    return Const({"int": int, "float": float}[name](*[a_.value for a_ in args]))
                except Exception:
                    pass
            if name in ("int", "float") and len(args) == 1 and (isinstance(args[0], BoolV) or (isinstance(args[0], Union) and all(isinstance(a_, (BoolV, Const)) and (not isinstance(a_, Const) or isinstance(a_.value, bool)) for a_ in args[0].alts))):
                # a truth value of unknown outcome: both numbers
                conv = {"int": int, "float": float}[name]
                return mk_union([Const(conv(True)), Const(conv(False))])
            if name in ("int", "float") and args:
                nv = NumV(f"{name}()")
                nv.conv = (name, args)  # type: ignore[attr-defined]
                return nv
            if name == "min" and len(args) == 2:
                nv = NumV("min")
                nv.min_of = args  # type: ignore[attr-defined]
                return nv
            if name in ("list", "tuple") and args:
                r = self.iter_elems(args[0])
                return Seq(r[0], r[1]) if r is not None else Unknown(f"{name}()")
            if name == "hex" and args:
                if isinstance(args[0], Const) and isinstance(args[0].value, int):
                    return Const(hex(args[0].value))
                return StrV(None, "hex()")
            if name == "enumerate" and args:
                r = self.iter_elems(args[0])
                if r is None:
                    return Unknown("enumerate")
                return Seq([Seq([Const(i), x]) for i, x in enumerate(r[0])], Seq([NumV("i"), r[1]]) if r[1] is not None else None)
            if name == "range":
                return Seq([], NumV("range"))
            if name == "chain":
                acc: V = Seq([])
                for a in args:
                    r = self.iter_elems(a)
                    if r is None:
                        return Seq([], Unknown("chain"))
                    acc = self._add_seq(acc, Seq(r[0], r[1]))
                return acc
            if name == "super":
                return Unknown("super")
            # a module-level function of the module the owner class lives in (`_locate_call(col, row)` in parser.py)
            ci_ = self.py.classes.get(owner)
            mod_ = self.py.modules.get(getattr(ci_, "module", None)) if ci_ is not None else None
            fdef = mod_.functions.get(name) if mod_ is not None else None
            if fdef is not None and not fdef.decorator_list and getattr(self, "_mf_depth", 0) < 4:
                self._mf_depth = getattr(self, "_mf_depth", 0) + 1
                try:
                    return self.call_function(fdef, args, None, owner, kwargs)
                finally:
                    self._mf_depth -= 1
            return Unknown(f"call {name}()")
        if isinstance(f, ast.Attribute):
            # re.match(<const pattern>, <text>) : remembered so that .group() has a language
            if isinstance(f.value, ast.Name) and f.value.id == "re" and "re" not in env and f.attr in ("match", "fullmatch") and len(args) >= 2 and isinstance(args[0], Const) and isinstance(args[0].value, str):
                u = Unknown(f"re.{f.attr}()")
                u.rematch = (f.attr, args[0].value, args[1])  # type: ignore[attr-defined]
                return u
            # super().__init__ / super().method handled by construct(); here: methods
            if isinstance(f.value, ast.Call) and isinstance(f.value.func, ast.Name) and f.value.func.id == "super":
                self_obj = env.get("self")
                if isinstance(self_obj, Obj):
                    mro = self.py.mro(owner)[1:]
                    for c2 in mro:
                        if f.attr in c2.methods:
                            return self.call_function(c2.methods[f.attr], [self_obj] + args, self_obj=self_obj, owner=c2.name, kwargs=kwargs)
                    return Const(None)
                return Unknown("super() outside a method")
            if isinstance(f.value, ast.Name) and f.value.id in ("self", "cls", "BasicVisitor") and not isinstance(env.get("self"), Obj) and not isinstance(env.get(f.value.id), (Obj, ClassRef)):
                # BasicVisitor helper: self.visit_x(node, visited_children)
                m = self.vm.cls.methods.get(f.attr) or self.vm.cls.classmethods.get(f.attr)
                if m is not None:
                    static = any(isinstance(d, ast.Name) and d.id == "staticmethod" for d in m.decorator_list)
                    return self.call_function(m, ([] if static else [Const(None)]) + args, self_obj=None, owner="BasicVisitor", kwargs=kwargs)
                return Unknown(f"self.{f.attr}()")
            target = self.ev(f, env, owner)
            outs = []
            for t in alts_of(target):
                outs.append(self.call_value(t, args, kwargs, n, env, owner))
            return mk_union(outs)
        return Unknown("call")

    def call_value(self, t: V, args: List[V], kwargs: Dict[str, V], n: ast.Call, env, owner) -> V:
        if hasattr(t, "bound"):
            obj, (ci, fn) = t.bound
            if any(isinstance(d, ast.Name) and d.id == "staticmethod" for d in fn.decorator_list):
                return self.call_function(fn, args, self_obj=None, owner=ci.name, kwargs=kwargs)
            if any(isinstance(d, ast.Name) and d.id == "classmethod" for d in fn.decorator_list):
                return self.call_function(fn, [ClassRef(obj.cls)] + args, self_obj=None, owner=ci.name, kwargs=kwargs)
            key = None
            if all(isinstance(a, (Const, NumV)) for a in args) and all(isinstance(a, (Const, NumV)) for a in kwargs.values()):
                key = (id(obj), fn.name, ci.name, tuple(a.value if isinstance(a, Const) else "num" for a in args), tuple(sorted((k, a.value if isinstance(a, Const) else "num") for k, a in kwargs.items())))
                # the cache entry keeps the receiver alive: abstract objects are transient, and the id of a
                # freed one can be handed to the next object (a stale hit then returns another object's result)
                hit = self._method_cache.get(key)
                if hit is not None and hit[0] is obj:
                    return hit[1]
                self._method_cache[key] = (obj, Unknown(f"recursive call of {ci.name}.{fn.name}"))
            r = self.call_function(fn, [obj] + args, self_obj=obj, owner=ci.name, kwargs=kwargs)
            if key is not None:
                self._method_cache[key] = (obj, r)
            return r
        if isinstance(t, ClassRef) and t.name in self.py.classes:
            return self.construct(t.name, args, kwargs, getattr(n, "lineno", 0), owner)
        if hasattr(t, "bound_cls"):
            cname, (ci, fn) = t.bound_cls
            decos = {d.id for d in fn.decorator_list if isinstance(d, ast.Name)}
            if "staticmethod" in decos:
                return self.call_function(fn, args, self_obj=None, owner=ci.name, kwargs=kwargs)
            if "classmethod" not in decos and args and isinstance(args[0], Obj):
                # a plain method called through its class: the receiver is the first argument
                return self.call_function(fn, args, self_obj=args[0], owner=ci.name, kwargs=kwargs)
            return self.call_function(fn, [ClassRef(cname)] + args, self_obj=None, owner=ci.name, kwargs=kwargs)
        if hasattr(t, "bound_map") and 1 <= len(args) <= 2 and not kwargs:
            mp = t.bound_map
            items_ = mp.items if isinstance(mp, MapV) else {k_: Const(v_) for k_, v_ in mp.value.items()}
            dflt = args[1] if len(args) == 2 else Const(None)
            k = args[0]
            keys = [k.value] if isinstance(k, Const) else (sorted(self.str_lits(k)) if self.str_lits(k) is not None else None)
            if keys is None:
                return mk_union(list(items_.values()) + [dflt])
            return mk_union([items_[kk] if kk in items_ else dflt for kk in keys])
        if hasattr(t, "bound_str"):
            s, meth = t.bound_str
            return self.str_method(s, meth, args)
        if hasattr(t, "bound_seq"):
            s, meth = t.bound_seq
            if meth == "append" and args:
                if s.tail is None and not s.opt:
                    s.items.append(args[0])
                else:
                    s.tail = mk_union([s.tail, args[0]]) if s.tail is not None else args[0]
                return Const(None)
            if meth == "pop":
                alts = s.items + ([s.tail] if s.tail is not None else [])
                return mk_union(alts) if alts else Unknown("pop of empty")
            if meth == "extend" and args:
                r = self.iter_elems(args[0])
                if r:
                    for x in r[0]:
                        s.items.append(x) if s.tail is None else None
                    if r[1] is not None:
                        s.tail = r[1] if s.tail is None else mk_union([s.tail, r[1]])
                return Const(None)
            return Unknown(f"list.{meth}")
        if hasattr(t, "bound_group"):
            kind, pat, text = t.bound_group
            if not args or (len(args) == 1 and isinstance(args[0], Const) and args[0].value == 0):
                sv = StrV(None, f"re.{kind}({pat!r}).group()")
                sv.op = ("rematch", text, [Const(pat), Const(kind)])  # type: ignore[attr-defined]
                node = getattr(text, "node", None)
                if node is not None:
                    sv.node = node  # type: ignore[attr-defined]
                return sv
            return StrV(None, "match group")
        if hasattr(t, "bound_tbl"):
            tb, meth = t.bound_tbl
            if meth == "keys":
                return Seq([Const(k) for k in tb.table])
            if meth == "values":
                return Seq([Const(k) for k in tb.table.values()])
            if meth == "get" and args:
                return self.subscript(tb, ast.Constant(value=None), env, owner)
        if hasattr(t, "of"):
            who, attr = t.of
            if attr == "basic09_text":
                return Tmpl([who])
            if attr == "name":
                sv = StrV(None, f"name of {who!r}")
                sv.name_of = who  # type: ignore[attr-defined]
                return sv
            return Unknown(f"call of {t.reason}")
        return Unknown(f"call of {t!r}")

    def str_method(self, s: V, meth: str, args: List[V]) -> V:
        lits = self.str_lits(s)
        cargs = [a.value for a in args] if all(isinstance(a, Const) for a in args) else None
        if lits is not None and cargs is not None and meth in ("replace", "strip", "lstrip", "rstrip", "lower", "upper", "startswith", "endswith", "find"):
            try:
                res = {getattr(x, meth)(*cargs) for x in lits}
                if len(res) == 1:
                    return Const(next(iter(res)))
                if all(isinstance(r, str) for r in res):
                    return StrV(frozenset(res))
                if all(isinstance(r, bool) for r in res):
                    return BoolV(meth)
                return NumV(meth)
            except Exception:
                pass
        node0 = getattr(s, "node", None)
        if meth == "strip" and not args and node0 is not None and not getattr(s, "full", False):
            blank, _ = self.text_info(node0)
            if blank == TRUE:
                return Const("")
            sv = StrV(None, ".strip()")
            sv.node = node0  # type: ignore[attr-defined]
            sv.nonempty = blank == FALSE  # type: ignore[attr-defined]
            sv.op = (meth, s, args)  # type: ignore[attr-defined]
            return sv
        if meth == "join" and args and isinstance(s, Const) and isinstance(s.value, str):
            r = self.iter_elems(args[0])
            if r is not None:
                fixed, tail = r
                parts: List[Any] = []
                for i, x in enumerate(fixed):
                    if i:
                        parts.append(s.value)
                    tp = tmpl_parts(x)
                    parts.extend(tp if tp is not None else [x])
                if tail is not None:
                    parts.append(("join", s.value, tail, bool(fixed)))
                return mk_tmpl(parts)
        if meth in ("replace", "strip", "lstrip", "rstrip", "lower", "upper", "format", "join"):
            sv = StrV(None, f".{meth}()")
            sv.op = (meth, s, args)  # type: ignore[attr-defined]
            node = getattr(s, "node", None)
            if node is not None:
                sv.node = node  # type: ignore[attr-defined]
            return sv
        if meth in ("startswith", "endswith", "isdigit"):
            return BoolV(meth)
        if meth in ("split", "rsplit", "partition") and args and all(isinstance(a, Const) for a in args):
            u = Unknown(f"str.{meth}")
            u.split_of = (meth, s, [a.value for a in args])  # type: ignore[attr-defined]
            return u
        if meth in ("find", "index", "count"):
            nv = NumV(f".{meth}()")
            nv.op = (meth, s, args)  # type: ignore[attr-defined]
            return nv
        return Unknown(f"str.{meth}")

    def construct(self, cls: str, args: List[V], kwargs: Dict[str, V], line: int, owner: str) -> V:
        obj = Obj(cls, {}, line=line, file=(self.py.classes[owner].module if owner in self.py.classes else PARSER_REL))
        obj.owner = owner  # type: ignore[attr-defined]
        obj.ctor_args = list(args)  # type: ignore[attr-defined]
        obj.ctor_kwargs = dict(kwargs)  # type: ignore[attr-defined]
        r = self.py.resolve_method(cls, "__init__")
        if r is None:
            ci_ = self.py.classes.get(cls)
            if ci_ is not None and any(b_ in ("NamedTuple",) for b_ in ci_.bases):
                # record: positional / keyword arguments bind to the annotated fields in order, defaults apply
                flds = [(st.target.id, st.value) for st in ci_.node.body if isinstance(st, ast.AnnAssign) and isinstance(st.target, ast.Name)]
                for i_, (fname, dflt) in enumerate(flds):
                    if i_ < len(args):
                        obj.fields[fname] = args[i_]
                    elif fname in kwargs:
                        obj.fields[fname] = kwargs[fname]
                    elif dflt is not None:
                        obj.fields[fname] = self.ev(dflt, {}, owner)
                obj.record_fields = [f_ for f_, _ in flds]  # type: ignore[attr-defined]
            return obj
        if self.depth > 60:
            return obj
        self.depth += 1
        try:
            self.call_function(r[1], [obj] + args, self_obj=obj, owner=r[0].name, kwargs=kwargs)
        finally:
            self.depth -= 1
        return obj


def _load(t: ast.AST) -> ast.AST:
    import copy

    x = copy.deepcopy(t)
    for n in ast.walk(x):
        if hasattr(n, "ctx"):
            n.ctx = ast.Load()
    return x


def interp(ctx: Ctx) -> Interp:
    return ctx.engine("absint", Interp)
