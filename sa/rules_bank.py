"""Procedure bank rules: L5 BANK-ALGORITHM (idiom), L6 PATTERN-GUARDS."""

from __future__ import annotations

import ast
import re
import re._constants as sc
import re._parser as sp
from typing import Dict, List, Optional, Set, Tuple

from .b09lib import LIB_REL, b09lib
from .core import AnalysisError, Ctx, IdiomNotFound, rule
from .peg import RegexConst, fold_module, peg
from .pipeline import COMPILER_REL, pipeline
from .pyast import ast_contains, call_name, is_self_attr, names_loaded, pyfacts, unparse
from .relang import Lang
from .rules_l import PROCBANK_REL, bank_patterns

EVEN_QUOTES = r'[^"]*(?:"[^"]*"[^"]*)*$'
EVEN_QUOTES_LINE = r'[^"\r\n]*(?:"[^"\r\n]*"[^"\r\n]*)*$'


@rule("L5", "BANK-ALGORITHM: dependency closure marks before recursing, result is sorted(closure - root) + [root], one placeholder substitution", ["C13", "C15", "C11", "C07"], floor=6, soft=True, default_props=["C13"])
def l5(ctx: Ctx):
    py = pyfacts(ctx)
    ci = py.cls("ProcedureBank")
    rec = ci.methods.get("_add_procedure_dependencies")
    get = ci.methods.get("get_procedure_and_dependencies")
    add = ci.methods.get("add_from_str")
    if rec is None or get is None or add is None:
        raise IdiomNotFound("ProcedureBank methods not found")
    params = [a.arg for a in rec.args.args]
    if len(params) != 3:
        raise IdiomNotFound("_add_procedure_dependencies(self, name, deps) signature not recognised")
    _, name, deps = params
    body = [s for s in rec.body if not (isinstance(s, ast.Expr) and isinstance(s.value, ast.Constant))]
    # guard; mark; recurse
    guard = next((i for i, s in enumerate(body) if isinstance(s, ast.If) and unparse(s.test).replace(" ", "") == f"{name}in{deps}" and any(isinstance(x, ast.Return) for x in s.body)), None)
    mark = next((i for i, s in enumerate(body) if isinstance(s, ast.Expr) and isinstance(s.value, ast.Call) and call_name(s.value) == "add" and unparse(s.value.func.value) == deps and unparse(s.value.args[0]) == name), None)
    loop = next((i for i, s in enumerate(body) if isinstance(s, ast.For)), None)
    if guard is None or mark is None or loop is None:
        raise IdiomNotFound("`if name in deps: return / deps.add(name) / for d in ...: recurse` not recognised")
    ctx.ob("closure:guard-mark-recurse", guard < mark < loop, "" if guard < mark < loop else "the closure no longer marks a procedure before recursing into its callees: a procedure that (directly or indirectly) calls itself - e.g. a program named like a library procedure it uses - recurses until RecursionError", file=PROCBANK_REL, line=rec.lineno, props=["C13", "C15"], witness="ecb_cls.bas containing CLS")
    fl = body[loop]
    it = unparse(fl.iter)
    oki = re.fullmatch(rf"self\._name_to_dependencies\[{name}\]", it) is not None
    ctx.ob("closure:iterates-callees", oki, "" if oki else f"the closure iterates `{it}`, not the recorded callees of the procedure", file=PROCBANK_REL, line=fl.lineno)
    rc = [c for c in ast.walk(fl) if isinstance(c, ast.Call) and call_name(c) == rec.name]
    okr = len(rc) == 1 and len(rc[0].args) == 2 and unparse(rc[0].args[0]) == unparse(fl.target) and unparse(rc[0].args[1]) == deps
    ctx.ob("closure:recurses-every-callee", okr, "" if okr else "the closure does not recurse into every callee with the same accumulator", file=PROCBANK_REL, line=fl.lineno)
    # get_procedure_and_dependencies (and the helpers it calls): structural slots, not a frozen fragment
    pname = get.args.args[1].arg
    scope = [get] + [m_ for n_, m_ in ci.methods.items() if m_ is not get and any(isinstance(c, ast.Attribute) and c.attr == n_ and isinstance(c.value, ast.Name) and c.value.id == "self" for c in ast.walk(get)) and n_ not in ("_get_procedure_and_dependency_names", "_add_procedure_dependencies")]
    walk_scope = [n for f_ in scope for n in ast.walk(f_)]
    sorts = [c for c in walk_scope if isinstance(c, ast.Call) and call_name(c) == "sorted" and c.args]
    removed = any(
        (isinstance(c, ast.Call) and isinstance(c.func, ast.Attribute) and c.func.attr in ("remove", "discard") and c.args and unparse(c.args[0]) == pname)
        or (isinstance(c, ast.BinOp) and isinstance(c.op, ast.Sub) and isinstance(c.right, ast.Set) and [unparse(e) for e in c.right.elts] == [pname])
        or (isinstance(c, ast.Call) and isinstance(c.func, ast.Attribute) and c.func.attr == "difference" and c.args and pname in unparse(c.args[0]))
        for c in walk_scope
    )
    appended = any(
        (isinstance(c, ast.BinOp) and isinstance(c.op, ast.Add) and isinstance(c.right, ast.List) and [unparse(e) for e in c.right.elts] == [pname])
        or (isinstance(c, ast.Call) and isinstance(c.func, ast.Attribute) and c.func.attr == "append" and c.args and unparse(c.args[0]) == pname)
        for c in walk_scope
    )
    # what is sorted are the *names* (a name, or names minus the root) - not the procedure texts
    names_sorted = bool(sorts) and all(isinstance(c.args[0], (ast.Name, ast.BinOp)) or (isinstance(c.args[0], ast.Call) and isinstance(c.args[0].func, ast.Attribute) and c.args[0].func.attr in ("difference", "copy")) for c in sorts) and not any(k.arg == "key" for c in sorts for k in c.keywords)
    ok12 = names_sorted and removed and appended
    ctx.idiom(
        "result:sorted+root-last",
        bool(sorts) or removed or appended,
        ok12,
        "" if ok12 else f"the result is no longer `sorted(closure - {{root}}) + [root]` (names sorted: {names_sorted}, root taken out: {removed}, root appended last: {appended}): procedures are not in alphabetical order / the program is not last / appears twice",
        file=PROCBANK_REL,
        line=get.lineno,
    )
    ok3 = any(isinstance(c, ast.Compare) and len(c.ops) == 1 and isinstance(c.ops[0], (ast.In, ast.NotIn)) and unparse(c.comparators[0]) == "self._name_to_procedure" for c in walk_scope)
    # the same filter written with `.get` (no default: a defaultdict's factory is not called) and a test for None
    gets_ = [c for c in walk_scope if isinstance(c, ast.Attribute) and c.attr == "get" and unparse(c.value) == "self._name_to_procedure"]
    none_test = any(isinstance(c, ast.Compare) and len(c.ops) == 1 and isinstance(c.ops[0], (ast.IsNot, ast.NotEq)) and isinstance(c.comparators[0], ast.Constant) and c.comparators[0].value is None for c in walk_scope) or any(isinstance(c, ast.Call) and call_name(c) == "filter" and c.args and isinstance(c.args[0], ast.Constant) and c.args[0].value is None for c in walk_scope)
    subscripted = any(isinstance(c, ast.Subscript) and unparse(c.value) == "self._name_to_procedure" for c in walk_scope)
    if gets_ and none_test and not subscripted:
        ok3 = True
    ctx.idiom("result:present-only", ok3 or subscripted, ok3, "" if ok3 else "names without a stored procedure (system modules) are no longer filtered out", file=PROCBANK_REL, line=get.lineno)
    subs = [c for c in walk_scope if isinstance(c, ast.Call) and isinstance(c.func, ast.Attribute) and c.func.attr == "sub"]
    tagged = [c for c in subs if (unparse(c.func.value) == "re" and c.args and unparse(c.args[0]) == "STR_STORAGE_TAG") or unparse(c.func.value) == "STR_STORAGE_TAG"]
    oks = len(subs) == 1 and len(tagged) == 1
    ctx.idiom("result:one-substitution", bool(subs), oks, "" if oks else "the string-size placeholder is not substituted by exactly one substitution of STR_STORAGE_TAG", file=PROCBANK_REL, line=get.lineno)
    # ... and it replaces every occurrence: no `count` (4th positional argument of re.sub, 3rd of pattern.sub)
    for c in tagged:
        via_re = unparse(c.func.value) == "re"
        cnt = next((k.value for k in c.keywords if k.arg == "count"), None)
        pos = c.args[3] if via_re and len(c.args) > 3 else (c.args[2] if not via_re and len(c.args) > 2 else None)
        lim = cnt if cnt is not None else pos
        okc = lim is None or (isinstance(lim, ast.Constant) and lim.value == 0)
        ctx.ob("result:substitutes-all", okc, "" if okc else f"the placeholder substitution is limited by `{unparse(lim)}` (the argument after the text is `count`, not flags): only the first placeholders of the bundle are replaced, the rest stay `STRING<<>>`", file=PROCBANK_REL, line=c.lineno)
    cmps = [c for c in walk_scope if isinstance(c, ast.Compare) and len(c.ops) == 1 and {unparse(c.left), unparse(c.comparators[0])} == {"self._default_str_storage", "b09.DEFAULT_STR_STORAGE"}]
    consts = [c.value for c in walk_scope if isinstance(c, ast.Constant) and isinstance(c.value, str)]
    # module-level named string constants used in the scope count with their value
    mod_assigns = py.mod(PROCBANK_REL).assigns
    named_consts = {n.id: mod_assigns[n.id].value for n in walk_scope if isinstance(n, ast.Name) and isinstance(mod_assigns.get(n.id), ast.Constant) and isinstance(mod_assigns[n.id].value, str)}
    consts += list(named_consts.values())
    has_plain = any(x.strip() == ": STRING" for x in consts) or any(x.startswith(": STRING") for x in consts)
    has_sized = any(isinstance(c, ast.JoinedStr) and "[" in "".join(str(v.value) for v in c.values if isinstance(v, ast.Constant)) and any(isinstance(v, ast.FormattedValue) and unparse(v.value) == "self._default_str_storage" for v in c.values) for c in walk_scope)
    okt = len(cmps) == 1 and isinstance(cmps[0].ops[0], (ast.Eq, ast.NotEq)) and has_plain and has_sized
    ctx.idiom(
        "result:replacement-text",
        bool(cmps),
        okt,
        "" if okt else f"the replacement is no longer `: STRING` when the requested size equals BASIC09's default and `: STRING[n]` otherwise (test: `{unparse(cmps[0]) if cmps else None}`, plain text: {has_plain}, sized text: {has_sized}): sizes that merely compare smaller / larger get the wrong declaration",
        file=PROCBANK_REL,
        line=get.lineno,
    )
    # add_from_str: header starts a new procedure; every line is kept; dependencies recorded under the current name
    asrc = unparse(add)
    loops = [n for n in ast.walk(add) if isinstance(n, ast.For)]
    ok4 = False
    for lp in loops:
        if isinstance(lp.target, ast.Name):
            lv = lp.target.id
            if ast_contains(lp, f"PROCEDURE_START_PREFIX.match({lv})") and (ast_contains(lp, f"INVOKED_PROCEDURE_NAMES.findall({lv})") or ast_contains(lp, f"INVOKED_PROCEDURE_NAMES.findall($f({lv}))")):
                ok4 = True
    # each procedure text is stored by plain assignment: a name that is loaded twice (the program called like a library
    # procedure) is replaced, not glued onto the first text
    stores_ = [n for n in ast.walk(add) if isinstance(n, (ast.Assign, ast.AugAssign)) and any(isinstance(t_, ast.Subscript) and unparse(t_.value) == "self._name_to_procedure" for t_ in (n.targets if isinstance(n, ast.Assign) else [n.target]))]
    upd_ = [c for c in ast.walk(add) if isinstance(c, ast.Call) and isinstance(c.func, ast.Attribute) and c.func.attr == "update" and unparse(c.func.value) == "self._name_to_procedure"]
    oks_ = all(isinstance(n, ast.Assign) for n in stores_)
    ctx.idiom(
        "load:stores-replace",
        bool(stores_ or upd_),
        oks_,
        "" if oks_ else f"add_from_str stores a procedure with `{unparse(next(n for n in stores_ if not isinstance(n, ast.Assign)))[:70]}`: a program named like a library procedure (ecb_cls.bas) is appended to the library text of that name - the bundle's last procedure is two procedures glued together, and with / without dependencies the program text differs",
        file=PROCBANK_REL,
        line=(next((n for n in stores_ if not isinstance(n, ast.Assign)), add)).lineno,
        witness="" if oks_ else "ecb_cls.bas containing 10 CLS",
        props=["C13", "C11"],
    )
    both_here = ast_contains(add, "PROCEDURE_START_PREFIX.match($x)") and ast_contains(add, "INVOKED_PROCEDURE_NAMES.findall($$y)")
    ctx.idiom("load:patterns", both_here, ok4, "" if ok4 else "add_from_str no longer uses the header / RUN patterns line by line", file=PROCBANK_REL, line=add.lineno)
    # the text is cut into lines at line terminators only: any other character may occur inside a string literal.
    # Decided on the *language* of whatever pattern does the cutting (inline or a module-level compiled constant).
    from .peg import fold_module

    env_pb = fold_module(ctx, PROCBANK_REL)
    loops = [n for n in ast.walk(add) if isinstance(n, ast.For)]
    split_ok: Optional[bool] = None
    split_txt = ""
    crlf = Lang.from_regex(r"[\r\n]+")
    for lp in loops:
        it = lp.iter
        if not (isinstance(it, ast.Call) and isinstance(it.func, ast.Attribute)):
            continue
        split_txt = unparse(it)
        pat = None
        if it.func.attr == "split" and unparse(it.func.value) == "re" and it.args and isinstance(it.args[0], ast.Constant) and isinstance(it.args[0].value, str):
            pat = it.args[0].value
        elif it.func.attr == "split" and isinstance(it.func.value, ast.Name) and isinstance(env_pb.get(it.func.value.id), RegexConst):
            pat = env_pb[it.func.value.id].pattern
        elif it.func.attr == "split" and it.args and isinstance(it.args[0], ast.Constant) and it.args[0].value in ("\n", "\r", "\r\n"):
            split_ok = True
            break
        elif it.func.attr == "splitlines":
            split_ok = False
            break
        if pat is not None:
            try:
                split_ok = Lang.from_regex(pat).included_in(crlf)[0]
            except Exception:
                split_ok = None
            break
    ctx.idiom("load:line-split", split_ok is not None, bool(split_ok), "" if split_ok else f"add_from_str cuts the text with `{split_txt}`, which also breaks at characters other than CR/LF (form feed, U+2028 ...) that a user's string literal may contain: the literal is cut in two, quotes become unbalanced and a RUN on that line is missed", file=PROCBANK_REL, line=add.lineno, witness="" if split_ok else '10 PLAY "CDE\x0cFG"', props=["C13", "C11", "C07"])
    from .pyast import resolve_alias

    upd = [c for c in ast.walk(add) if isinstance(c, ast.Call) and isinstance(c.func, ast.Attribute) and c.func.attr == "update" and isinstance(c.func.value, ast.Subscript) and unparse(c.func.value.value) == "self._name_to_dependencies" and c.args]
    ok5 = False
    if upd:
        arg = resolve_alias(add, upd[0].args[0])
        key = resolve_alias(add, upd[0].func.value.slice)
        from_run_pattern = isinstance(arg, ast.Call) and isinstance(arg.func, ast.Attribute) and arg.func.attr == "findall" and unparse(arg.func.value) == "INVOKED_PROCEDURE_NAMES"
        from_header = (isinstance(key, ast.Subscript) and isinstance(key.slice, ast.Constant) and key.slice.value == 1) or (isinstance(key, ast.Call) and isinstance(key.func, ast.Attribute) and key.func.attr == "group" and key.args and isinstance(key.args[0], ast.Constant) and key.args[0].value == 1)
        ok5 = from_run_pattern and from_header
    key_known = bool(upd) and not (isinstance(resolve_alias(add, upd[0].func.value.slice), ast.Name) and any(isinstance(f_, ast.For) and any(isinstance(t_, ast.Name) and t_.id == resolve_alias(add, upd[0].func.value.slice).id for t_ in ast.walk(f_.target)) for f_ in ast.walk(add)))
    ctx.idiom("load:records-callees", bool(upd) and key_known, ok5, "" if ok5 else "callees are not recorded under the procedure being read", file=PROCBANK_REL, line=add.lineno)
    # convert(): library first, then the program, then the closure of the program's own name
    P = pipeline(ctx)
    # slots in execution (depth-first) order: the library resource, the text the program emitted, the closure of the procedure name
    order_: Dict[int, int] = {}
    for i_, n_ in enumerate(ast.walk(P.fn)):
        order_[id(n_)] = i_
    seq_: List[ast.AST] = []

    def _dfs(n_):
        seq_.append(n_)
        for c_ in ast.iter_child_nodes(n_):
            _dfs(c_)

    _dfs(P.fn)
    pos_ = {id(n_): i_ for i_, n_ in enumerate(seq_)}
    emitted_names = {a.targets[0].id for a in ast.walk(P.fn) if isinstance(a, ast.Assign) and len(a.targets) == 1 and isinstance(a.targets[0], ast.Name) and isinstance(a.value, ast.Call) and isinstance(a.value.func, ast.Attribute) and a.value.func.attr == "basic09_text"}
    c1 = [c for c in seq_ if isinstance(c, ast.Call) and call_name(c) == "add_from_resource" and c.args and isinstance(c.args[0], ast.Constant) and c.args[0].value == "ecb.b09"]
    c2 = [c for c in seq_ if isinstance(c, ast.Call) and call_name(c) == "add_from_str" and c.args and isinstance(c.args[0], ast.Name) and c.args[0].id in emitted_names]
    c3 = [c for c in seq_ if isinstance(c, ast.Call) and call_name(c) == "get_procedure_and_dependencies" and c.args and isinstance(c.args[0], ast.Name) and c.args[0].id == "procname"]
    ok6 = bool(c1 and c2 and c3) and pos_[id(c1[0])] < pos_[id(c2[0])] < pos_[id(c3[0])]
    ctx.ob("convert:feeds-bank", ok6, "" if ok6 else "convert() does not load ecb.b09, then the emitted program, then ask for the closure of procname", file=COMPILER_REL, line=P.fn.lineno, props=["C13", "C11"])


_APPLY = {"findall": 0, "finditer": 0, "search": 0, "match": 0, "fullmatch": 0, "sub": 1, "subn": 1, "split": 0}
_APPLY_RE = {"findall": 1, "finditer": 1, "search": 1, "match": 1, "fullmatch": 1, "sub": 2, "subn": 2, "split": 1}


def _pattern_uses(ctx: Ctx, nm: str):
    """(function, call, subject expression) for every application of the module-level pattern `nm` in procbank.py."""
    py = pyfacts(ctx)
    mod = py.mod(PROCBANK_REL)
    out = []
    for fn_ in [n for n in ast.walk(mod.tree) if isinstance(n, (ast.FunctionDef, ast.AsyncFunctionDef))]:
        for c in ast.walk(fn_):
            if not (isinstance(c, ast.Call) and isinstance(c.func, ast.Attribute)):
                continue
            subj = None
            if isinstance(c.func.value, ast.Name) and c.func.value.id == nm and c.func.attr in _APPLY:
                i = _APPLY[c.func.attr]
                subj = c.args[i] if len(c.args) > i else next((k.value for k in c.keywords if k.arg == "string"), None)
            elif isinstance(c.func.value, ast.Name) and c.func.value.id == "re" and c.func.attr in _APPLY_RE and c.args and isinstance(c.args[0], ast.Name) and c.args[0].id == nm:
                i = _APPLY_RE[c.func.attr]
                subj = c.args[i] if len(c.args) > i else next((k.value for k in c.keywords if k.arg == "string"), None)
            if subj is not None:
                out.append((fn_, c, subj))
    return out


def _cuts_lines(it: ast.AST, env) -> bool:
    """`it` is an expression whose elements are single lines of a text joined by newlines."""
    if isinstance(it, ast.Call) and isinstance(it.func, ast.Name) and it.func.id in ("enumerate", "list", "iter", "tuple") and it.args:
        return _cuts_lines(it.args[0], env)
    if not (isinstance(it, ast.Call) and isinstance(it.func, ast.Attribute)):
        return False
    a = it.func.attr
    if a == "splitlines":
        return True
    if a == "split":
        pat = None
        if isinstance(it.func.value, ast.Name) and it.func.value.id == "re" and it.args and isinstance(it.args[0], ast.Constant) and isinstance(it.args[0].value, str):
            pat = it.args[0].value
        elif isinstance(it.func.value, ast.Name) and isinstance(env.get(it.func.value.id), RegexConst):
            pat = env[it.func.value.id].pattern
        elif it.args and isinstance(it.args[0], ast.Constant) and it.args[0].value == "\n":
            return True
        if pat is not None:
            try:
                return re.fullmatch(pat, "\n") is not None
            except re.error:
                return False
    return False


def _line_valued(fn_: ast.AST, subj: ast.AST, env, module: Optional[ast.Module] = None) -> Optional[bool]:
    """True: the subject is one line of a newline split; False: it is a whole text (a parameter, a join, a read);
    None: where it comes from is not understood (no verdict)."""
    if isinstance(subj, ast.Call) and isinstance(subj.func, ast.Name) and len(subj.args) == 1 and not subj.keywords and module is not None and any(isinstance(f, ast.FunctionDef) and f.name == subj.func.id and len(f.args.args) == 1 for f in module.body):
        # a module-level function of one line (`_code_part(line)`): what it returns is still (part of) that line
        return _line_valued(fn_, subj.args[0], env, module)
    if isinstance(subj, (ast.Subscript,)) and isinstance(subj.slice, ast.Slice):
        return _line_valued(fn_, subj.value, env, module)
    if not isinstance(subj, ast.Name):
        return False if isinstance(subj, ast.Call) and isinstance(subj.func, ast.Attribute) and subj.func.attr in ("join", "read") else None
    params = {a.arg for a in getattr(fn_, "args", ast.arguments(posonlyargs=[], args=[], kwonlyargs=[], kw_defaults=[], defaults=[])).args}

    def position(target: ast.AST) -> Optional[Tuple[int, ...]]:
        if isinstance(target, ast.Name):
            return () if target.id == subj.id else None
        if isinstance(target, (ast.Tuple, ast.List)):
            for i, t in enumerate(target.elts):
                p_ = position(t)
                if p_ is not None:
                    return (i,) + p_
        return None

    def from_iter(it: ast.AST, pos: Tuple[int, ...]) -> Optional[bool]:
        if isinstance(it, ast.Call) and isinstance(it.func, ast.Name) and it.func.id == "enumerate" and it.args and pos[:1] == (1,):
            return from_iter(it.args[0], pos[1:])
        if pos == ():
            if _cuts_lines(it, env):
                return True
            if isinstance(it, ast.Call) and isinstance(it.func, ast.Attribute) and it.func.attr in ("split", "splitlines"):
                return False  # a split, but not at line ends
        # a module-level generator function: what it yields at that position
        if module is not None and isinstance(it, ast.Call) and isinstance(it.func, ast.Name) and len(pos) <= 1:
            gen = next((f for f in module.body if isinstance(f, ast.FunctionDef) and f.name == it.func.id), None)
            if gen is not None:
                ys = [y.value for y in ast.walk(gen) if isinstance(y, ast.Yield) and y.value is not None]
                verdicts = []
                for y in ys:
                    e = y
                    if pos:
                        if not (isinstance(y, ast.Tuple) and pos[0] < len(y.elts)):
                            return None
                        e = y.elts[pos[0]]
                    verdicts.append(_line_valued(gen, e, env, None))
                if verdicts and all(v is True for v in verdicts):
                    return True
                if any(v is False for v in verdicts):
                    return False
        return None

    for n in ast.walk(fn_):
        if isinstance(n, (ast.For, ast.comprehension)):
            pos = position(n.target)
            if pos is not None:
                return from_iter(n.iter, pos)
    if subj.id in params:
        return False
    binds = [a.value for a in ast.walk(fn_) if isinstance(a, (ast.Assign, ast.AnnAssign)) and a.value is not None and any(isinstance(t, ast.Name) and t.id == subj.id for t in (a.targets if isinstance(a, ast.Assign) else [a.target]))]
    if len(binds) == 1:
        return _line_valued(fn_, binds[0], env, module) if isinstance(binds[0], ast.Name) else (False if isinstance(binds[0], ast.Call) and isinstance(binds[0].func, ast.Attribute) and binds[0].func.attr in ("join", "read") else None)
    return None


def cut_comment(raw: str) -> str:
    """The checker's own reading of a BASIC09 line: what precedes the first `(*` outside string literals."""
    q = False
    for i, ch in enumerate(raw):
        if ch == '"':
            q = not q
        elif not q and raw.startswith("(*", i):
            return raw[:i]
    return raw


def bank_cuts_comments(ctx: Ctx) -> Optional[bool]:
    """True: every application of the RUN pattern takes its subject through a step that cuts the line at `(*` outside
    quotes; False: the pattern is applied to the bare line; None: some other transformation, not understood."""
    py = pyfacts(ctx)
    mod = py.mod(PROCBANK_REL).tree
    uses = _pattern_uses(ctx, "INVOKED_PROCEDURE_NAMES")
    if not uses:
        return None
    verdicts = []
    for fn_, call_, subj in uses:
        if isinstance(subj, ast.Name):
            # a local bound once to helper(line)?
            binds = [a.value for a in ast.walk(fn_) if isinstance(a, ast.Assign) and len(a.targets) == 1 and isinstance(a.targets[0], ast.Name) and a.targets[0].id == subj.id]
            if len(binds) == 1 and isinstance(binds[0], ast.Call):
                subj = binds[0]
            else:
                verdicts.append(False)
                continue
        if isinstance(subj, ast.Call) and isinstance(subj.func, ast.Name):
            hf = next((f for f in mod.body if isinstance(f, ast.FunctionDef) and f.name == subj.func.id), None)
            if hf is None or len(hf.args.args) != 1:
                verdicts.append(None)
                continue
            par = hf.args.args[0].arg
            consts = {c.value for c in ast.walk(hf) if isinstance(c, ast.Constant) and isinstance(c.value, str)}
            toggles = any(isinstance(a, ast.Assign) and isinstance(a.value, ast.UnaryOp) and isinstance(a.value.op, ast.Not) for a in ast.walk(hf))
            cuts = any(isinstance(r, ast.Return) and isinstance(r.value, ast.Subscript) and isinstance(r.value.slice, ast.Slice) and r.value.slice.lower is None and isinstance(r.value.value, ast.Name) and r.value.value.id == par for r in ast.walk(hf))
            whole = any(isinstance(r, ast.Return) and isinstance(r.value, ast.Name) and r.value.id == par for r in ast.walk(hf))
            verdicts.append(True if ("(*" in consts and '"' in consts and toggles and cuts and whole) else None)
        else:
            verdicts.append(None)
    if all(v is True for v in verdicts):
        return True
    if any(v is False for v in verdicts):
        return False
    return None


def _lookahead_tail(pattern: str, flags: int) -> Optional[str]:
    """If the pattern ends with a positive look-ahead, a Lang for the look-ahead's content (as text check)."""
    tree = sp.parse(pattern, flags)
    items = list(tree)
    if not items:
        return None
    op, av = items[-1]
    if op is sc.ASSERT and av[0] == 1:
        return av[1]
    return None


def _sub_lang(sub) -> Lang:
    from .relang import NFA, _build

    nfa = NFA()
    end = _build(nfa, sub, 0, nfa.start)
    nfa.accept = {end}
    return Lang.from_nfa(nfa)


@rule("L6", "PATTERN-GUARDS: RUN / placeholder patterns ignore text inside string literals; every placeholder is matched; accepted procedure names can be read back", ["C13", "C15", "C10", "C11", "C07"], floor=8, default_props=["C13", "C15", "C10"])
def l6(ctx: Ctx):
    pats = bank_patterns(ctx)
    L = b09lib(ctx)
    ref = Lang.from_regex(EVEN_QUOTES)
    ref_nl = Lang.from_regex(EVEN_QUOTES_LINE)
    ref_nl2 = Lang.from_regex(EVEN_QUOTES_LINE.replace("\\r", ""))
    env_pb0 = fold_module(ctx, PROCBANK_REL)
    for nm in ("INVOKED_PROCEDURE_NAMES", "STR_STORAGE_TAG"):
        rc = pats[nm]
        sub = _lookahead_tail(rc.pattern, rc.flags)
        if sub is None:
            ctx.ob(f"{nm}:quote-guard", False, f"`{nm}` no longer ends with the look-ahead that requires an even number of quotes up to the end of the line: text inside a user's string literal or DATA item (e.g. \"RUN ecb_play\", \": STRING<<>>\") is taken for a call / a placeholder, so the size option and the dependency switch change the user's own text", file=PROCBANK_REL, line=1, witness='10 PRINT "RUN ecb_play"', props=["C13", "C11", "C10"] if nm == "STR_STORAGE_TAG" else ["C13"])
            continue
        try:
            got = _sub_lang(sub)
        except Exception as e:
            raise AnalysisError("L6", nm, f"cannot build the look-ahead language: {e}")
        ok, w = got.equals(ref)
        # a guard written for one line at a time: same language without line terminators
        ok_nl = got.equals(ref_nl)[0] or got.equals(ref_nl2)[0]
        try:
            eff_flags = re.compile(rc.pattern, rc.flags).flags  # inline (?m) counts
        except re.error:
            eff_flags = rc.flags
        bounded = ok_nl and bool(eff_flags & re.MULTILINE)
        ctx.ob(f"{nm}:quote-guard", ok or ok_nl, "" if ok or ok_nl else f"the trailing look-ahead of `{nm}` is not the even-quote guard (differs on {w!r})", file=PROCBANK_REL, line=1, props=["C13", "C11", "C10"] if nm == "STR_STORAGE_TAG" else ["C13"])
        # ... and the quotes it counts are those of ONE line: a quote opened on a line is closed on that line (or never),
        # so counting to the end of a multi-line text lets an unbalanced quote of a later line (REM SAY "HI) switch the guard
        # off for everything before it
        uses = _pattern_uses(ctx, nm)
        ctx.need(uses, f"{nm}:uses", f"no application of `{nm}` found in procbank.py")
        mod_tree = pyfacts(ctx).mod(PROCBANK_REL).tree
        for fn_, call_, subj in uses:
            per_line = _line_valued(fn_, subj, env_pb0, mod_tree)
            if per_line is None and not bounded:
                ctx.undecided(f"{nm}:guard-scope:{fn_.name}", f"where `{unparse(subj)}` comes from is not understood (neither a line of a newline split nor a whole text)", file=PROCBANK_REL, line=call_.lineno, props=["C13"])
                continue
            oku = bounded or (bool(per_line) and (ok or ok_nl))
            ctx.ob(
                f"{nm}:guard-scope:{fn_.name}",
                oku,
                "" if oku else f"`{unparse(call_)[:80]}` applies `{nm}` to `{unparse(subj)}`, which is not one line of the text: the look-ahead counts quotes up to the end of the whole bundle, so one unbalanced quote on a later line (a comment) leaves every earlier " + ("placeholder unreplaced" if nm == "STR_STORAGE_TAG" else "RUN unrecorded"),
                file=PROCBANK_REL,
                line=call_.lineno,
                witness='10 A$=STRING$(3,"X")\n20 REM SAY "HI',
                props=["C13", "C10", "C07"] if nm == "STR_STORAGE_TAG" else ["C13"],
            )
    # ... and never in a comment: `(* please run ecb_hdraw later *)` is not a call
    cc = bank_cuts_comments(ctx)
    if cc is None:
        ctx.undecided("INVOKED_PROCEDURE_NAMES:comment-free", "the text handed to the RUN pattern is transformed in a way this check does not understand", file=PROCBANK_REL, line=1, props=["C13"])
    else:
        ctx.ob(
            "INVOKED_PROCEDURE_NAMES:comment-free",
            cc,
            "" if cc else "the RUN pattern is applied to whole lines, comments included: a REM / ' comment of the user's program (or of the library) that contains the words `run <name>` adds <name> and everything it calls to the bundle although no statement runs it",
            file=PROCBANK_REL,
            line=1,
            witness="" if cc else "10 ' please run ecb_hdraw later",
            props=["C13"],
        )
    # the RUN pattern sees a call wherever the tool (or the library) can put one on a line
    py0 = pyfacts(ctx)
    joiners = set()
    for ci in py0.classes.values():
        for fn in ci.methods.values():
            for c in ast.walk(fn):
                if isinstance(c, ast.Constant) and isinstance(c.value, str) and re.fullmatch(r" *\\ *", c.value):
                    joiners.add(c.value)
    ctx.need(joiners, "statement-joiner", "the ` \\ ` separator of one-line statement groups was not found in elements.py")
    runp = re.compile(pats["INVOKED_PROCEDURE_NAMES"].pattern, pats["INVOKED_PROCEDURE_NAMES"].flags)
    probes = [("RUN ecb_a(x)", ["ecb_a"]), ("  RUN ecb_a(x)", ["ecb_a"]), ("100 RUN ecb_a(x)", ["ecb_a"]), ("run ecb_a(x)", ["ecb_a"]), ("  run _ecb_a", ["_ecb_a"]), ('PRINT "RUN ecb_a"', []), ("RUN ecb_a(\"RUN ecb_c\", x)", ["ecb_a"])]
    for j in sorted(joiners):
        probes.append((f"RUN ecb_a(x){j}RUN ecb_b(tmp_1){j}y := tmp_1", ["ecb_a", "ecb_b"]))
        probes.append((f'100 PRINT "A"{j}RUN ecb_b(y)', ["ecb_b"]))
    bad = [(t, want, runp.findall(t)) for t, want in probes if [x if isinstance(x, str) else x[0] for x in runp.findall(t)] != want]
    ctx.ob(
        "INVOKED_PROCEDURE_NAMES:contexts",
        not bad,
        "" if not bad else f"on the line `{bad[0][0]}` the RUN pattern finds {bad[0][2]} instead of {bad[0][1]}: calls the tool writes after a label or after the ` \\ ` separator (several hoisted calls of one statement) are not recorded as dependencies, so the bundle misses a procedure it RUNs",
        file=PROCBANK_REL,
        line=1,
        witness="" if not bad else "10 PRINT HEX$(3);STR$(4)",
        props=["C13"],
    )
    # every placeholder occurrence of the library is matched by STR_STORAGE_TAG
    tag = re.compile(pats["STR_STORAGE_TAG"].pattern, pats["STR_STORAGE_TAG"].flags)
    n_ph = 0
    for p in L.procs.values():
        for ln, raw in p.lines:
            occ = len(re.findall(r"(?i)string<<>>", raw))
            if not occ:
                continue
            n_ph += occ
            hit = len(tag.findall(raw))
            ctx.ob(f"placeholder:{p.name}:{_ord(p, ln)}", hit == occ, "" if hit == occ else f"`{raw.strip()}` contains {occ} size placeholder(s), STR_STORAGE_TAG matches {hit}: `STRING<<>>` survives into the bundle, which BASIC09 cannot load", file=LIB_REL, line=ln, props=["C13", "C10", "C07"])
    ctx.need(n_ph >= 5, "placeholders", f"only {n_ph} `STRING<<>>` placeholders found in ecb.b09")
    # no placeholder-like text remains possible after substitution: the tag's core is literally STRING<<>>
    core = re.sub(r"\(\?=.*$", "", pats["STR_STORAGE_TAG"].pattern)
    okc = re.fullmatch(core, ": STRING<<>>", pats["STR_STORAGE_TAG"].flags) is not None and re.fullmatch(core, ":string<<>>", pats["STR_STORAGE_TAG"].flags) is not None
    ctx.ob("STR_STORAGE_TAG:core", okc, "" if okc else f"placeholder pattern core `{core}` does not match `: STRING<<>>` / `:string<<>>`", file=PROCBANK_REL, line=1, props=["C13", "C10", "C07"])
    # procedure names: what convert() accepts must be readable by the header pattern
    env = peg(ctx).env
    pn = env.get("PROCNAME_REGEX")
    ctx.need(isinstance(pn, RegexConst), "PROCNAME_REGEX", "not a foldable re.compile constant in grammar.py")
    P = pipeline(ctx)
    use = next((c for c in ast.walk(P.fn) if isinstance(c, ast.Call) and isinstance(c.func, ast.Attribute) and isinstance(c.func.value, ast.Name) and c.func.value.id == "PROCNAME_REGEX"), None)
    ctx.need(use is not None, "convert", "use of PROCNAME_REGEX not found")
    meth = use.func.attr
    accepted = Lang.from_regex(pn.pattern, pn.flags)
    if meth == "match":
        accepted = Lang.from_regex(f"(?:{pn.pattern})(?:.|\\n)*", pn.flags)
    elif meth == "search":
        accepted = Lang.from_regex(f"(?:.|\\n)*(?:{pn.pattern})(?:.|\\n)*", pn.flags)
    elif meth != "fullmatch":
        raise AnalysisError("L6", "PROCNAME_REGEX", f"unmodelled use `.{meth}`")
    hdr = pats["PROCEDURE_START_PREFIX"].pattern
    m = re.search(r"\((?!\?)([^()]*)\)", hdr)
    ctx.need(m is not None, "PROCEDURE_START_PREFIX", "no capture group for the name")
    readable = Lang.from_regex(m.group(1))
    ok, w = accepted.included_in(readable)
    ctx.ob(
        "procname-language",
        ok,
        "" if ok else f"convert() accepts the procedure name {w!r} (PROCNAME_REGEX.{meth}), which the bank's header pattern `{hdr}` cannot read back: the emitted `procedure {w}` line is not recognised and bundling fails",
        file=COMPILER_REL,
        line=use.lineno,
        witness="" if ok else f"input file {w}.bas",
        props=["C13", "C15", "C11"],
    )
    # the header pattern reads what the tool writes: `procedure <name>` alone on a line
    hre = re.compile(hdr, pats["PROCEDURE_START_PREFIX"].flags)
    okh = hre.match("procedure program") is not None and hre.match("procedure program") .group(1) == "program" and hre.match('PRINT "procedure x"') is None
    ctx.ob("header-pattern", okh, "" if okh else "PROCEDURE_START_PREFIX does not read back the header line the tool emits (or also matches inside other statements)", file=PROCBANK_REL, line=1, props=["C13"])
    py = pyfacts(ctx)
    bp = py.resolve_method("BasicProg", "basic09_text")
    # the header line may be produced by basic09_text itself or by a helper / generator of the class
    okw = bp is not None and any("f'procedure {self._procname}'" in unparse(m_) for m_ in py.cls("BasicProg").methods.values())
    ctx.ob("header-emission", okw, "" if okw else "BasicProg no longer emits `procedure <name>` as its first line", file="coco/b09/prog.py", line=bp[1].lineno if bp else 1, props=["C13"])
    # user strings are always emitted inside quotes, and cannot contain a quote themselves
    lit = py.resolve_method("BasicLiteral", "basic09_text")
    ctx.need(lit is not None, "BasicLiteral.basic09_text", "not found")
    # decided on the text of two literal objects: a string is emitted between double quotes, a number is not
    from .absint import Const as _Const, interp as _interp
    from .rules_expr import _render as _rnd

    I_ = _interp(ctx)
    got_q = set()
    for val_ in ("ABC", 1.5):
        o_ = I_.construct("BasicLiteral", [_Const(val_)], {}, 0, "BasicLiteral")
        got_q.add((repr(val_), tuple(sorted(_rnd(I_.call_function(lit[1], [o_, _Const(0)], self_obj=o_, owner=lit[0].name))))))
    okq = got_q == {("'ABC'", ('"ABC"',)), ("1.5", ("1.5",))}
    ctx.ob("strings-quoted", okq, "" if okq else "string literals are no longer emitted between double quotes", file="coco/b09/elements.py", line=lit[1].lineno, props=["C13", "C07"])
    g = peg(ctx)
    anyq = Lang.from_regex(r'(?:.|\n)*"(?:.|\n)*')
    for term, inner in (("str_literal", r'[^"\n]*'), ("partial_str_lit", r'[^"\n]*'), ("data_str_literal", None)):
        e = g.rules.get(term)
        ctx.need(e is not None and g.kind(e) == "regex", term, "terminal not found")
        pat = e.re.pattern
        body = pat
        if term == "str_literal":
            body = re.sub(r'^\\?"', "", re.sub(r'\\?"$', "", pat))
        elif term == "partial_str_lit":
            body = re.sub(r'^\\?"', "", pat)
        Lb = Lang.from_regex(body)
        w = Lb.intersect(anyq).witness()
        w2 = Lb.intersect(Lang.from_regex(r"(?:.|\n)*\n(?:.|\n)*")).witness()
        ok = w is None and w2 is None
        ctx.ob(f"{term}:no-quote-inside", ok, "" if ok else f"the text of `{term}` can contain a quote or newline ({(w or w2)!r}): the emitted literal is not closed and the quote guards above are out of step", file="coco/b09/grammar.py", line=g.line(term), props=["C13", "C07"])


def _ord(p, ln: int) -> int:
    lines = [l for l, raw in p.lines if re.search(r"(?i)string<<>>", raw)]
    return lines.index(ln) + 1


def _ambiguous_repeats(pattern: str, flags: int) -> List[Tuple[str, str]]:
    """Unbounded repeats whose body can match one string both as one and as several iterations (or through two
    alternatives): the classic shape of exponential backtracking.  Returns [(description, witness)]."""
    from .relang import NFA, _build

    out: List[Tuple[str, str]] = []

    def lang_of(build) -> Lang:
        nfa = NFA()
        end = build(nfa, nfa.start)
        nfa.accept = {end}
        return Lang.from_nfa(nfa)

    nonempty = Lang.from_regex(r"(?:.|\n)+")

    def walk(items, fl):
        for op, av in items:
            if op is sc.BRANCH:
                for alt in av[1]:
                    walk(alt, fl)
            elif op is sc.SUBPATTERN:
                walk(av[3], (fl | av[1]) & ~av[2])
            elif op in (sc.ASSERT, sc.ASSERT_NOT):
                walk(av[1], fl)
            elif op in (sc.MAX_REPEAT, sc.MIN_REPEAT):
                lo, hi, sub = av
                walk(sub, fl)
                if hi is not sc.MAXREPEAT:
                    continue
                sub = list(sub)
                try:
                    one = lang_of(lambda n, s: _build(n, sub, fl, s)).intersect(nonempty)

                    def many(n, s):
                        a = _build(n, sub, fl, s)
                        b = _build(n, sub, fl, a)
                        l0 = n.new()
                        n.eps(b, l0)
                        l1 = _build(n, sub, fl, l0)
                        n.eps(l1, l0)
                        return l0

                    w = one.intersect(lang_of(many).intersect(nonempty)).witness()
                except Exception:
                    continue
                if w is not None:
                    out.append(("one iteration or several", w))
                    continue
                # two alternatives of the body matching the same text
                body = sub
                while len(body) == 1 and body[0][0] is sc.SUBPATTERN:
                    body = list(body[0][1][3])
                if len(body) == 1 and body[0][0] is sc.BRANCH:
                    alts = [list(a) for a in body[0][1][1]]
                    for i in range(len(alts)):
                        for j in range(i + 1, len(alts)):
                            try:
                                w = lang_of(lambda n, s, a=alts[i]: _build(n, a, fl, s)).intersect(lang_of(lambda n, s, a=alts[j]: _build(n, a, fl, s))).intersect(nonempty).witness()
                            except Exception:
                                w = None
                            if w is not None:
                                out.append(("two alternatives", w))

    walk(list(sp.parse(pattern, flags)), flags)
    return out


@rule("L6b", "REGEX-BACKTRACK: no pattern the tool applies to program text contains an unbounded repeat whose body is ambiguous (exponential backtracking = a hang)", ["C15"], floor=10)
def l6b(ctx: Ctx):
    pats = bank_patterns(ctx)
    for nm, rc in sorted(pats.items()):
        amb = _ambiguous_repeats(rc.pattern, rc.flags)
        ctx.ob(
            f"procbank.{nm}",
            not amb,
            "" if not amb else f"`{nm}` = {rc.pattern!r} contains a repeat whose body matches {amb[0][1]!r} in more than one way ({amb[0][0]}): on a line where the rest of the pattern fails the matcher tries all 2^n splits of a long run of such text; conversion of that program does not terminate in practice",
            file=PROCBANK_REL,
            line=1,
            witness="" if not amb else '10 PRINT "PLEASE RUN AGAIN";" ' + "X" * 40 + '"',
        )
    g = peg(ctx)
    pn = g.env.get("PROCNAME_REGEX")
    if isinstance(pn, RegexConst):
        amb = _ambiguous_repeats(pn.pattern, pn.flags)
        ctx.ob("grammar.PROCNAME_REGEX", not amb, "" if not amb else f"PROCNAME_REGEX {pn.pattern!r}: ambiguous repeat ({amb[0]})", file="coco/b09/grammar.py", line=1)
    for name, e in sorted(g.rules.items()):
        if g.kind(e) != "regex":
            continue
        amb = _ambiguous_repeats(e.re.pattern, e.re.flags)
        ctx.ob(f"grammar.{name}", not amb, "" if not amb else f"terminal `{name}` = {e.re.pattern!r} contains a repeat whose body matches {amb[0][1]!r} in more than one way ({amb[0][0]}): exponential backtracking on inputs where the rest of the rule fails", file="coco/b09/grammar.py", line=g.line(name))
