"""Further structural rules: E1c ANNOUNCE-FIRST, E13 TEMP-FRESH, E14 SHORTCUT-AGREE, P9 FLAG-MONOTONE."""

from __future__ import annotations

import ast
import re
from typing import Dict, List, Optional, Set, Tuple

from .core import AnalysisError, Ctx, IdiomNotFound, rule
from .emit import ELEMENTS_REL, emitmodel, roots
from .pyast import call_name, is_self_attr, names_loaded, pyfacts, unparse

VISITORS_REL = "coco/b09/visitors.py"


E1C_CONTAINERS = {
    "BasicStatements": "a container: each of its statements announces itself",
}


@rule("E1c", "ANNOUNCE-FIRST: a statement announces itself to the visitor before its operands are visited (hoisted calls land in their own statement)", ["C05", "C04", "C06", "C01", "C02", "C15"], floor=15, default_props=["C05", "C04", "C01", "C15"])
def e1c(ctx: Ctx):
    em = emitmodel(ctx)
    py = em.py
    for cls in em.concrete():
        if not py.is_subclass(cls, "AbstractBasicStatement"):
            continue
        w = em.walk(cls, "visit")
        if not w.found:
            continue
        ann = None
        first_child = None
        for i, ev in enumerate(w.events):
            if ev.kind == "callback" and ev.name == "visit_statement" and ev.origin == ("self",) and ann is None:
                ann = i
            if ev.kind == "visit" and first_child is None and roots(ev.origin) - {"<self>"}:
                first_child = i
        r = py.resolve_method(cls, "visit")
        if ann is None:
            if cls in E1C_CONTAINERS:
                ctx.info(cls, "exception: " + E1C_CONTAINERS[cls], file=r[0].module, line=r[1].lineno)
                continue
            ctx.ob(
                cls,
                False,
                f"`{r[0].name}.visit` never calls visitor.visit_statement(self): the statement is invisible to the passes that look for statements (duplicate ON ERR/ON BRK refusal, DIM and HBUFF detection) and procedure calls hoisted out of its operands are attached to the previous statement",
                file=r[0].module,
                line=r[1].lineno,
                # (for a statement that transfers control the misplaced computation also changes the path taken)
                props=["C05", "C04", "C06"] + (["C02"] if __import__("re").search(r"(OnGo|Goto|Gosub|If|For|Next|While)", cls) else []),
            )
            continue
        if first_child is None:
            ctx.ob(cls, True, file=r[0].module, line=r[1].lineno)
            continue
        ok = ann < first_child
        # for a statement that transfers control, a call computed in the wrong place also changes the path taken
        cf = bool(__import__("re").search(r"(OnGo|Goto|Gosub|If|For|Next|While)", cls))
        ctx.ob(
            cls,
            ok,
            "" if ok else f"`{r[0].name}.visit` visits its operands before calling visitor.visit_statement(self): procedure calls hoisted out of the operands are attached to the previously visited statement (computed too early, or once instead of on every iteration)",
            file=r[0].module,
            line=r[1].lineno,
            props=["C05", "C04", "C01", "C02"] if cf else None,
        )


@rule("E13", "TEMP-FRESH: a new temporary is numbered from the size of the very set it is registered in", ["C05", "C01", "C04", "C03", "C02"], floor=2, soft=True)
def e13(ctx: Ctx):
    py = pyfacts(ctx)
    ci = py.cls("AbstractBasicStatement")
    fn = ci.methods.get("get_new_temp")
    if fn is None:
        raise IdiomNotFound("get_new_temp not found")
    branches = []
    for st in ast.walk(fn):
        if isinstance(st, ast.If):
            branches = [st.body, st.orelse]
            break
    if len(branches) != 2 or not all(branches):
        # other shapes (`temps = A if is_str else B`, aliases ...): specialise the body on the flag and compare
        # the set that is counted with the set the new name is registered in
        _e13_specialised(ctx, ci, fn)
        return
    for i, body in enumerate(branches):
        assign = next((s for s in body if isinstance(s, ast.Assign) and isinstance(s.value, ast.JoinedStr)), None)
        add = next((s for s in body if isinstance(s, ast.Expr) and isinstance(s.value, ast.Call) and call_name(s.value) == "add"), None)
        if assign is not None and add is None and any(isinstance(c, ast.Call) and call_name(c) == "len" for c in ast.walk(assign.value)):
            kind = "string" if i == 0 else "numeric"
            ctx.ob(
                f"get_new_temp:{kind}",
                False,
                f"the {kind} temporary is numbered from the size of a set in which it is never registered: every temporary of a statement gets the same name",
                file=ELEMENTS_REL,
                line=assign.lineno,
                witness="10 A=INT(B)+INT(C)",
            )
            continue
        if assign is None or add is None:
            raise IdiomNotFound("`val = f'tmp_{len(S) + 1}'; S.add(val)` not recognised")
        lens = [c for c in ast.walk(assign.value) if isinstance(c, ast.Call) and call_name(c) == "len"]
        if len(lens) != 1:
            raise IdiomNotFound("counter expression not recognised")
        counted = unparse(lens[0].args[0])
        added_to = unparse(add.value.func.value)
        plus1 = any(isinstance(b, ast.BinOp) and isinstance(b.op, ast.Add) and isinstance(b.right, ast.Constant) and b.right.value >= 1 for b in ast.walk(assign.value))
        kind = "string" if i == 0 else "numeric"
        ok = counted == added_to and plus1
        ctx.ob(
            f"get_new_temp:{kind}",
            ok,
            "" if ok else f"the {kind} temporary is numbered from `len({counted})` but registered in `{added_to}`: two temporaries of one statement get the same name and the second call overwrites the first result",
            file=ELEMENTS_REL,
            line=assign.lineno,
            witness="" if ok else "10 A=INT(B)+INT(C)",
        )
        # the registered value is the name just built
        arg = add.value.args[0] if add.value.args else None
        tgt = assign.targets[0]
        oka = isinstance(arg, ast.Name) and isinstance(tgt, ast.Name) and arg.id == tgt.id
        ctx.ob(f"get_new_temp:{kind}:registers-name", oka, "" if oka else "the name registered in the set is not the name handed out", file=ELEMENTS_REL, line=add.lineno)
    # both sets start empty per statement (instance attributes set in __init__)
    init = ci.methods.get("__init__")
    if init is None:
        raise IdiomNotFound("__init__ not found")
    sets = [t.attr for s in ast.walk(init) if isinstance(s, ast.Assign) and isinstance(s.value, ast.Call) and call_name(s.value) == "set" for t in s.targets if is_self_attr(t)]
    ok = len(sets) >= 2
    ctx.ob("temps:per-statement", ok, "" if ok else "temporary name sets are not created per statement instance", file=ELEMENTS_REL, line=init.lineno)



def _e13_specialised(ctx: Ctx, ci, fn) -> None:
    """E13 for a get_new_temp without the two-branch shape: partially evaluate the straight-line body once with the
    kind flag true and once with it false (an `if flag` / `X if flag else Y` is resolved, local names are replaced by
    what they were bound to), then read off which set is counted in the name and which set the name is added to."""
    import copy

    if len(fn.args.args) < 2:
        raise IdiomNotFound("get_new_temp: kind parameter not found")
    flag = fn.args.args[1].arg

    class Sub(ast.NodeTransformer):
        def __init__(self, env, val):
            self.env, self.val = env, val

        def visit_Name(self, n):
            if isinstance(n.ctx, ast.Load) and n.id in self.env:
                return copy.deepcopy(self.env[n.id])
            return n

        def visit_IfExp(self, n):
            t = _flag_test(n.test, flag)
            if t is None:
                return self.generic_visit(n)
            return self.visit(n.body if t == self.val else n.orelse)

    def run(val: bool):
        env: Dict[str, ast.AST] = {}
        adds: List[Tuple[ast.AST, ast.AST, int]] = []

        def block(stmts) -> None:
            for st in stmts:
                if isinstance(st, ast.If):
                    t = _flag_test(st.test, flag)
                    if t is None:
                        raise IdiomNotFound("get_new_temp: a condition that is not the kind flag")
                    block(st.body if t == val else st.orelse)
                elif isinstance(st, ast.Assign) and len(st.targets) == 1 and isinstance(st.targets[0], ast.Name):
                    env[st.targets[0].id] = Sub(env, val).visit(copy.deepcopy(st.value))
                elif isinstance(st, ast.Expr) and isinstance(st.value, ast.Call) and call_name(st.value) == "add" and isinstance(st.value.func, ast.Attribute) and len(st.value.args) == 1:
                    adds.append((Sub(env, val).visit(copy.deepcopy(st.value.func.value)), Sub(env, val).visit(copy.deepcopy(st.value.args[0])), st.lineno))
                elif isinstance(st, ast.Return) or (isinstance(st, ast.Expr) and isinstance(st.value, ast.Constant)):
                    continue
                else:
                    raise IdiomNotFound("get_new_temp: statement kind not modelled: " + type(st).__name__)

        block(fn.body)
        return adds

    for val, kind in ((True, "string"), (False, "numeric")):
        adds = run(val)
        if len(adds) != 1:
            raise IdiomNotFound(f"get_new_temp ({kind}): expected exactly one registration, found {len(adds)}")
        recv, name, ln = adds[0]
        if not isinstance(name, ast.JoinedStr):
            raise IdiomNotFound(f"get_new_temp ({kind}): the registered value is not a formatted name")
        lens = [c for c in ast.walk(name) if isinstance(c, ast.Call) and call_name(c) == "len" and len(c.args) == 1]
        if len(lens) != 1:
            raise IdiomNotFound(f"get_new_temp ({kind}): counter expression not recognised")
        counted, added_to = unparse(lens[0].args[0]), unparse(recv)
        plus1 = any(isinstance(b, ast.BinOp) and isinstance(b.op, ast.Add) and isinstance(b.right, ast.Constant) and isinstance(b.right.value, int) and b.right.value >= 1 for b in ast.walk(name))
        ok = counted == added_to and plus1
        ctx.ob(
            f"get_new_temp:{kind}",
            ok,
            "" if ok else f"the {kind} temporary is numbered from `len({counted})` but registered in `{added_to}`: two temporaries of one statement get the same name and the second call overwrites the first result",
            file=ELEMENTS_REL,
            line=ln,
            witness="" if ok else "10 HSET(JOYSTK(0),JOYSTK(1),POINT(3,4))",
        )
    init = ci.methods.get("__init__")
    if init is None:
        raise IdiomNotFound("__init__ not found")
    sets = [t.attr for s in ast.walk(init) if isinstance(s, ast.Assign) and isinstance(s.value, ast.Call) and call_name(s.value) == "set" for t in s.targets if is_self_attr(t)]
    ok = len(sets) >= 2
    ctx.ob("temps:per-statement", ok, "" if ok else "temporary name sets are not created per statement instance", file=ELEMENTS_REL, line=init.lineno)


def _flag_test(test: ast.AST, flag: str) -> Optional[bool]:
    """True for `flag`, False for `not flag`, None for anything else."""
    if isinstance(test, ast.Name) and test.id == flag:
        return True
    if isinstance(test, ast.UnaryOp) and isinstance(test.op, ast.Not) and isinstance(test.operand, ast.Name) and test.operand.id == flag:
        return False
    return None


def _isinstance_facts(test: ast.AST, self_names: Dict[str, str]) -> Set[Tuple[str, str]]:
    """{(subject, class)} for a conjunction of isinstance tests; subject normalised through `self_names`."""
    out: Set[Tuple[str, str]] = set()
    parts = test.values if isinstance(test, ast.BoolOp) and isinstance(test.op, ast.And) else [test]
    for p in parts:
        if isinstance(p, ast.Call) and call_name(p) == "isinstance" and len(p.args) == 2 and isinstance(p.args[1], ast.Name):
            subj = unparse(p.args[0])
            out.add((self_names.get(subj, subj), p.args[1].id))
        else:
            out.add(("?", unparse(p)))
    return out


@rule("E14", "SHORTCUT-AGREE: the hoisting pass binds a function straight to the assignment target exactly when the assignment prints the call instead of `:=`", ["C05", "C01", "C03"], floor=1, soft=True)
def e14(ctx: Ctx):
    py = pyfacts(ctx)
    pv = py.cls("BasicFunctionalExpressionPatcherVisitor").methods.get("visit_statement")
    bt = py.cls("BasicAssignment").methods.get("basic09_text")
    if pv is None or bt is None:
        raise IdiomNotFound("patcher.visit_statement / BasicAssignment.basic09_text not found")
    param = pv.args.args[1].arg
    pif = next((s for s in ast.walk(pv) if isinstance(s, ast.If) and any(isinstance(c, ast.Call) and call_name(c) == "set_var" for c in ast.walk(s))), None)
    eif = next((s for s in bt.body if isinstance(s, ast.If) and any(isinstance(c, ast.Attribute) and c.attr == "statement" for c in ast.walk(s))), None)
    if pif is None or eif is None:
        raise IdiomNotFound("shortcut conditions not recognised")
    names_ = {param: "self", f"{param}.exp": "exp", f"{param}.var": "var"}
    # local aliases of the statement's parts (`rhs = statement.exp`)
    for a_ in ast.walk(pv):
        if isinstance(a_, ast.Assign) and len(a_.targets) == 1 and isinstance(a_.targets[0], ast.Name) and unparse(a_.value) in names_:
            names_[a_.targets[0].id] = names_[unparse(a_.value)]
    pf = _isinstance_facts(pif.test, names_)
    # guard clauses in front of it: `if not isinstance(x, K): return` establishes isinstance(x, K)
    for st_ in pv.body:
        if st_ is pif or any(x is pif for x in ast.walk(st_)):
            break
        if isinstance(st_, ast.If) and not st_.orelse and st_.body and isinstance(st_.body[-1], (ast.Return, ast.Raise)) and isinstance(st_.test, ast.UnaryOp) and isinstance(st_.test.op, ast.Not):
            pf |= _isinstance_facts(st_.test.operand, names_)
    # enclosing ifs
    for outer in ast.walk(pv):
        if isinstance(outer, ast.If) and outer is not pif and any(x is pif for b_ in outer.body for x in ast.walk(b_)):
            pf |= _isinstance_facts(outer.test, names_)
    ef = _isinstance_facts(eif.test, {"self": "self", "self._exp": "exp", "self.exp": "exp", "self._var": "var", "self.var": "var"})
    ef = ef | {("self", "BasicAssignment")}
    ok = pf == ef
    ctx.ob(
        "assignment-shortcut",
        ok,
        "" if ok else f"the hoisting pass takes the shortcut under {sorted(pf)}, BasicAssignment.basic09_text prints the call under {sorted(ef)}: when only one of them applies the call is emitted twice (or never) and the target is not assigned",
        file=VISITORS_REL,
        line=pif.lineno,
        witness="" if ok else "10 K$(I)=INKEY$",
    )
    # the shortcut passes the assignment target as the result variable
    sv = next(c for c in ast.walk(pif) if isinstance(c, ast.Call) and call_name(c) == "set_var")
    okv = sv.args and names_.get(unparse(sv.args[0])) == "var" and names_.get(unparse(sv.func.value)) == "exp"
    ctx.ob("assignment-shortcut:target", bool(okv), "" if okv else f"set_var is called as `{unparse(sv)}`", file=VISITORS_REL, line=sv.lineno)


@rule("P9", "FLAG-MONOTONE: a detector pass only ever raises its flag (what one DATA/HBUFF/JOYSTK occurrence found is not forgotten at the next)", ["C03", "C04", "C20"], floor=3, default_props=["C03", "C04"])
def p9(ctx: Ctx):
    py = pyfacts(ctx)
    for cls in sorted(py.subclasses("BasicConstructVisitor")):
        ci = py.cls(cls)
        # (the constructor may be inherited from a shared detector base class)
        r_init = py.resolve_method(cls, "__init__")
        init = r_init[1] if r_init is not None and r_init[0].name != "BasicConstructVisitor" else None
        if init is None:
            continue
        flags = [t.attr for s in ast.walk(init) if isinstance(s, ast.Assign) and isinstance(s.value, ast.Constant) and s.value.value is False for t in s.targets if is_self_attr(t)]
        for fl in flags:
            for name, fn in ci.methods.items():
                if not name.startswith("visit_"):
                    continue
                for s in ast.walk(fn):
                    if isinstance(s, ast.Assign) and any(is_self_attr(t, fl) for t in s.targets):
                        v = s.value
                        mono = (isinstance(v, ast.Constant) and v.value is True) or (
                            isinstance(v, ast.BoolOp) and isinstance(v.op, ast.Or) and any(is_self_attr(x, fl) for x in v.values)
                        )
                        if not mono:
                            # assigned only while the flag is still down: `if not self.flag: self.flag = <anything>`
                            for g_ in ast.walk(fn):
                                if isinstance(g_, ast.If) and any(x is s for b_ in g_.body for x in ast.walk(b_)) and isinstance(g_.test, ast.UnaryOp) and isinstance(g_.test.op, ast.Not) and is_self_attr(g_.test.operand, fl):
                                    mono = True
                        if "data" in name:
                            from .pyast import ast_contains as _ac

                            okeq = _ac(fn, "$e.literal == ''") or _ac(fn, "'' == $e.literal") or _ac(fn, "not $e.literal")
                            ctx.ob(f"{cls}.{fl}@{name}:test", okeq, "" if okeq else "the detector no longer looks for DATA items equal to the empty string", file=ci.module, line=s.lineno, props=["C03", "C20"])
                        ctx.ob(
                            f"{cls}.{fl}@{name}",
                            mono,
                            "" if mono else f"`{cls}.{name}` assigns `{unparse(v)}` to the detector flag `{fl}`: a later occurrence without the feature resets what an earlier one found (only the last DATA line / statement visited decides)",
                            file=ci.module,
                            line=s.lineno,
                            props=["C03", "C20"] if "data" in name else ["C04"],
                        )


# ---------------------------------------------------------------------------
# E1e CURRENT-STATEMENT


def _must_store_self_attr(body: List[ast.stmt], attr: str, assigned: bool = False) -> Tuple[Optional[bool], bool]:
    """(state when the block falls through - None if it never does -, every exit reached so far has the attribute stored)."""
    exits_ok = True
    cur: Optional[bool] = assigned
    for st in body:
        if cur is None:
            break
        if isinstance(st, (ast.Return, ast.Raise)):
            if isinstance(st, ast.Return) and not cur:
                exits_ok = False
            cur = None
            break
        if isinstance(st, ast.Assign) and any(is_self_attr(t) and t.attr == attr for t in st.targets):
            cur = True
            continue
        if isinstance(st, ast.If):
            a, ea = _must_store_self_attr(st.body, attr, cur)
            b, eb = _must_store_self_attr(st.orelse, attr, cur)
            exits_ok = exits_ok and ea and eb
            cur = None if (a is None and b is None) else (a if b is None else b if a is None else (a and b))
            continue
        if isinstance(st, (ast.For, ast.While, ast.With, ast.Try)):
            for sub in ast.walk(st):
                if isinstance(sub, ast.Return) and not cur:
                    exits_ok = False
    return cur, exits_ok


@rule("E1e", "CURRENT-STATEMENT: a pass that attaches hoisted calls to `the current statement` records that statement on every path through visit_statement, before anything returns", ["C05", "C04", "C01", "C15"], floor=1)
def e1e(ctx: Ctx):
    py = pyfacts(ctx)
    n = 0
    for cn, ci in sorted(py.mod("coco/b09/visitors.py").classes.items()):
        vs, ve = ci.methods.get("visit_statement"), ci.methods.get("visit_exp")
        if vs is None or ve is None:
            continue
        # the attribute through which visit_exp reaches the statement (`self._statement.transform_function_to_call(exp)`)
        attrs = {c.func.value.attr for c in ast.walk(ve) if isinstance(c, ast.Call) and isinstance(c.func, ast.Attribute) and isinstance(c.func.value, ast.Attribute) and is_self_attr(c.func.value)}
        for attr in sorted(attrs):
            if not any(isinstance(a, ast.Assign) and any(is_self_attr(t) and t.attr == attr for t in a.targets) for a in ast.walk(vs)):
                continue
            n += 1
            cur, exits_ok = _must_store_self_attr(vs.body, attr)
            ok = exits_ok and (cur is None or cur)
            ctx.ob(f"{cn}.visit_statement:{attr}", ok, "" if ok else f"`{cn}.visit_statement` can return without storing the statement in `self.{attr}`: the next `visit_exp` attaches its hoisted procedure call to the statement visited before (the call runs with stale operands, in the wrong place) or fails on None", file="coco/b09/visitors.py", line=vs.lineno, witness="" if ok else "10 X=3:A=POINT(INT(X/2),7)")
    ctx.need(n >= 1, "visitors", "no pass that keeps a current statement for visit_exp found (expected the functional-expression patcher)")


# ---------------------------------------------------------------------------
# E21 CALL-ASSIGNMENT


@rule("E21", "CALL-ASSIGNMENT: an assignment whose right-hand side became a procedure call prints that call and nothing in front of it (no `LET`, no `target :=`) - decided by interpreting the emitter on concrete assignments", ["C07", "C01"], floor=2)
def e21(ctx: Ctx):
    from .absint import Const as _C, Seq as _S, alts_of as _alts, interp as _interp
    from .rules_abs import _flatten

    I = _interp(ctx)
    py = pyfacts(ctx)
    r = py.resolve_method("BasicAssignment", "basic09_text")
    ctx.need(r is not None, "BasicAssignment.basic09_text", "not found")

    def mk(cls, *a_, **k_):
        return I.construct(cls, list(a_), k_, r[1].lineno, "BasicAssignment")

    for let in (False, True):
        target = mk("BasicVar", _C("A"))
        fe = mk("BasicFunctionalExpression", _C("RUN ecb_int"), mk("BasicExpressionList", _S([mk("BasicVar", _C("B"))], None)))
        sv = py.resolve_method("BasicFunctionalExpression", "set_var")
        ctx.need(sv is not None, "BasicFunctionalExpression.set_var", "not found")
        I.call_function(sv[1], [fe, target], self_obj=fe, owner=sv[0].name)
        st = mk("BasicAssignment", target, fe, let_kw=_C(let))
        t = I.call_function(r[1], [st, _C(0)], self_obj=st, owner=r[0].name)
        texts = ["".join(p_ if isinstance(p_, str) else "{}" for p_ in _flatten(a_)) for a_ in _alts(t)]
        key = f"BasicAssignment[{'LET ' if let else ''}A=INT(B)]"
        if len(texts) != 1 or "{" in texts[0]:
            ctx.undecided(key, f"the text of the assignment could not be evaluated ({texts})", file=r[0].module, line=r[1].lineno)
            continue
        tx = texts[0].strip()
        ok = tx.upper().startswith("RUN ") and ":=" not in tx and "LET" not in tx.upper().split("RUN")[0]
        ctx.ob(key, ok, "" if ok else f"`{'LET ' if let else ''}A=INT(B)` is emitted as `{tx}`: the hoisted call already stores the result in the target, anything in front of / around `RUN ...` is not a BASIC09 statement", file=r[0].module, line=r[1].lineno, witness="" if ok else "10 LET A=INT(B)")


# ---------------------------------------------------------------------------
# E22 LINE-LABEL


@rule("E22", "LINE-LABEL: a line prints its number exactly when it has one and is referenced - whatever it contains (an empty `100 :` target keeps its label), and prints no number otherwise; decided by interpreting the emitter on concrete lines", ["C06", "C02"], floor=4)
def e22(ctx: Ctx):
    from .absint import Const as _C, Seq as _S, alts_of as _alts, interp as _interp
    from .rules_abs import _flatten

    I = _interp(ctx)
    py = pyfacts(ctx)
    r = py.resolve_method("BasicLine", "basic09_text")
    ctx.need(r is not None, "BasicLine.basic09_text", "not found")
    setter = py.resolve_method("BasicLine", "set_is_referenced")
    ctx.need(setter is not None, "BasicLine.set_is_referenced", "not found")

    def mk(cls, *a_, **k_):
        return I.construct(cls, list(a_), k_, r[1].lineno, "BasicLine")

    cases = [
        ("numbered, referenced, with a statement", 100, True, "full", True),
        ("numbered, referenced, empty", 100, True, "empty", True),
        ("line 0, referenced", 0, True, "full", True),
        ("numbered, not referenced", 100, False, "full", False),
        ("generated line (no number)", None, True, "full", False),
    ]
    for title, num, ref, body, want_label in cases:
        stmts = mk("BasicStatements", _S([mk("BasicAssignment", mk("BasicVar", _C("A")), mk("BasicLiteral", _C(1.0)))] if body == "full" else [], None))
        line = mk("BasicLine", _C(num), stmts)
        I.call_function(setter[1], [line, _C(ref)], self_obj=line, owner=setter[0].name)
        t = I.call_function(r[1], [line, _C(0)], self_obj=line, owner=r[0].name)
        texts = ["".join(p_ if isinstance(p_, str) else "{}" for p_ in _flatten(a_)) for a_ in _alts(t)]
        key = f"BasicLine[{title}]"
        if len(texts) != 1 or "{" in texts[0]:
            ctx.undecided(key, f"the text of the line could not be evaluated ({texts})", file=r[0].module, line=r[1].lineno)
            continue
        has = texts[0].lstrip().startswith(str(num)) if num is not None else bool(re.match(r"\s*\d+\s", texts[0]))
        ok = has == want_label
        ctx.ob(key, ok, "" if ok else f"a line that is {title} is emitted as `{texts[0][:40]}`: " + ("its label is missing, so a jump to it names a line no emitted line carries" if want_label else "it carries a label it should not have"), file=r[0].module, line=r[1].lineno, witness="" if ok else "10 GOSUB 100 / 100 :")
