"""Language of a string value derived from parse-node text (provenance recorded by the abstract interpreter)."""

from __future__ import annotations

from typing import Optional

from .absint import Const, Interp, NodeV, NumV, StrV, Tmpl, Union, V
from .relang import NFA, Lang, cs, erase_chars, lstrip_chars, rstrip_chars, strip_chars, suffix_after_first, SPACE


class NoLang(Exception):
    pass


NO_BLANK_SPELLINGS = False


def node_nfa(I: Interp, n: NodeV) -> NFA:
    p = I.peg
    e = n.expr
    if n.force == "present":
        e = e.members[0]
    k = p.kind(e)
    if n.force_text is not None:
        return _strings_nfa([n.force_text])
    if k == "regex":
        nfa = Lang.nfa_from_regex(e.re.pattern, e.re.flags & ~32)  # drop re.UNICODE
        if NO_BLANK_SPELLINGS:
            # only the spellings of the terminal that contain no blank (used to tell a layout effect from a plain one)
            nfa2 = NFA()
            nfa2.trans = [[(m if m == 0 else (m & ~SPACE), t) for m, t in row if m == 0 or (m & ~SPACE)] for row in nfa.trans]
            nfa2.start, nfa2.accept, nfa2.approx = nfa.start, set(nfa.accept), nfa.approx
            return nfa2
        return nfa
    lits = p.literal_set(e)
    if lits is not None:
        return _strings_nfa(sorted(lits))
    raise NoLang(f"text of non-terminal node {n.desc}")


def _strings_nfa(strings) -> NFA:
    nfa = NFA()
    for s in strings:
        cur = nfa.start
        for ch in s:
            nx = nfa.new()
            nfa.add(cur, cs([ord(ch)]), nx)
            cur = nx
        nfa.accept.add(cur)
    return nfa


def _concat(a: NFA, b: NFA) -> NFA:
    out = NFA()
    out.trans = [list(r) for r in a.trans]
    off = len(out.trans)
    for r in b.trans:
        out.trans.append([(m, t + off) for m, t in r])
    out.start = a.start
    for s in a.accept:
        out.eps(s, b.start + off)
    out.accept = {s + off for s in b.accept}
    out.approx = a.approx or b.approx
    return out


def drop_first(nfa: NFA, k: int) -> NFA:
    cur = {s for s in nfa.closure([nfa.start])}
    for _ in range(k):
        nxt = set()
        for s in cur:
            for m, t in nfa.trans[s]:
                if m:
                    nxt |= set(nfa.closure([t]))
        cur = nxt
    out = NFA()
    out.trans = [list(r) for r in nfa.trans]
    out.start = out.new()
    for s in cur:
        out.eps(out.start, s)
    out.accept = set(nfa.accept)
    out.approx = nfa.approx
    return out


def drop_last(nfa: NFA, k: int) -> NFA:
    acc = set(nfa.accept)
    for _ in range(k):
        # states with a character transition into (the closure-predecessors of) acc
        pre = set()
        # epsilon-predecessors of acc first
        closed = set(acc)
        changed = True
        while changed:
            changed = False
            for s, row in enumerate(nfa.trans):
                if s not in closed and any(m == 0 and t in closed for m, t in row):
                    closed.add(s)
                    changed = True
        for s, row in enumerate(nfa.trans):
            if any(m and t in closed for m, t in row):
                pre.add(s)
        acc = pre
    out = NFA()
    out.trans = [list(r) for r in nfa.trans]
    out.start = nfa.start
    out.accept = acc
    out.approx = nfa.approx
    return out


def prefix_upto(nfa: NFA, n: int) -> NFA:
    """{ w[:n] : w in L }."""
    # live states: an accepting state is reachable
    live = set(nfa.accept)
    changed = True
    while changed:
        changed = False
        for s, row in enumerate(nfa.trans):
            if s not in live and any(t in live for _, t in row):
                live.add(s)
                changed = True
    out = NFA()
    idx = {}

    def st(s, k):
        if (s, k) not in idx:
            idx[(s, k)] = out.new()
        return idx[(s, k)]

    out.eps(out.start, st(nfa.start, 0))
    work = [(nfa.start, 0)]
    seen = set(work)
    while work:
        s, k = work.pop()
        a = st(s, k)
        if (s in nfa.accept and k <= n) or (k == n and s in live):
            out.accept.add(a)
        for m, t in nfa.trans[s]:
            if m == 0:
                nk = k
            else:
                if k == n:
                    continue
                nk = k + 1
            out.add(a, m, st(t, nk)) if m else out.eps(a, st(t, nk))
            if (t, nk) not in seen:
                seen.add((t, nk))
                work.append((t, nk))
    out.approx = nfa.approx
    return out


def longest_prefix_match(nfa: NFA, pattern: str, full: bool = False) -> NFA:
    """{ m : w in L, m = the (greedy = longest, for the simple patterns supported) prefix of w matched by `pattern` }.
    Supported patterns: those whose greedy match is the longest match (character classes with repeats, literals)."""
    import re._parser as sp
    import re._constants as sc

    tree = sp.parse(pattern)
    for op, av in tree:
        if op not in (sc.LITERAL, sc.IN, sc.MAX_REPEAT, sc.ANY, sc.NOT_LITERAL):
            raise NoLang(f"re.match pattern {pattern!r} is outside the supported subset")
        if op is sc.MAX_REPEAT and not all(o in (sc.LITERAL, sc.IN, sc.ANY, sc.NOT_LITERAL) for o, _ in av[2]):
            raise NoLang(f"re.match pattern {pattern!r} is outside the supported subset")
    base = Lang.from_nfa(nfa)
    P = Lang.from_regex(pattern)
    if full:
        return _lang_to_nfa(base.intersect(P))
    # product walk: (a, b) reached by u; u is the result iff b accepting and some continuation v from a reaches a base
    # accept without passing through a P-accepting state (then no longer prefix matches)
    # co-reachability in the product restricted to non-accepting P states
    from .relang import NSYM

    good = set()  # (a, b): from here base-accept is reachable by >= 0 symbols, all intermediate/final P states non-accepting
    states = [(a, b) for a in range(len(base.trans)) for b in range(len(P.trans))]
    changed = True
    ok_after = set()  # pairs from which a continuation exists whose every non-empty prefix leaves P non-accepting
    for a, b in states:
        if a in base.accept:
            ok_after.add((a, b, True))
    # compute cont(a, b): exists v (possibly empty) with a --v--> base accept, and for every non-empty prefix of v the P state is non-accepting
    cont = {(a, b) for a in range(len(base.trans)) for b in range(len(P.trans)) if a in base.accept}
    changed = True
    while changed:
        changed = False
        for a in range(len(base.trans)):
            for b in range(len(P.trans)):
                if (a, b) in cont:
                    continue
                for sym in range(NSYM):
                    a2, b2 = base.trans[a][sym], P.trans[b][sym]
                    if b2 not in P.accept and (a2, b2) in cont:
                        cont.add((a, b))
                        changed = True
                        break
    out = NFA()
    idx = {}

    def st(a, b):
        if (a, b) not in idx:
            idx[(a, b)] = out.new()
        return idx[(a, b)]

    out.eps(out.start, st(base.start, P.start))
    work = [(base.start, P.start)]
    seen = set(work)
    while work:
        a, b = work.pop()
        if b in P.accept and (a, b) in cont:
            out.accept.add(st(a, b))
        groups = {}
        for sym in range(NSYM):
            groups.setdefault((base.trans[a][sym], P.trans[b][sym]), 0)
            groups[(base.trans[a][sym], P.trans[b][sym])] |= 1 << sym
        for (a2, b2), mask in groups.items():
            out.add(st(a, b), mask, st(a2, b2))
            if (a2, b2) not in seen:
                seen.add((a2, b2))
                work.append((a2, b2))
    return out


def _lang_to_nfa(L: Lang) -> NFA:
    from .relang import NSYM

    out = NFA()
    out.trans = [[] for _ in L.trans]
    out.start = L.start
    out.accept = set(L.accept)
    for s_, row in enumerate(L.trans):
        groups = {}
        for sym in range(NSYM):
            groups[row[sym]] = groups.get(row[sym], 0) | (1 << sym)
        for t, mask in groups.items():
            out.trans[s_].append((mask, t))
    return out


def string_nfa(I: Interp, v: V) -> NFA:
    """NFA of the possible values of string value v (raises NoLang when the provenance is not modelled)."""
    if isinstance(v, Const) and isinstance(v.value, str):
        return _strings_nfa([v.value])
    if isinstance(v, Union):
        parts = [string_nfa(I, a) for a in v.alts]
        out = NFA()
        for pnfa in parts:
            off = len(out.trans)
            for r in pnfa.trans:
                out.trans.append([(m, t + off) for m, t in r])
            out.eps(out.start, pnfa.start + off)
            out.accept |= {s + off for s in pnfa.accept}
            out.approx = out.approx or pnfa.approx
        return out
    if isinstance(v, Tmpl):
        cur = _strings_nfa([""])
        for p in v.parts:
            cur = _concat(cur, _strings_nfa([p]) if isinstance(p, str) else string_nfa(I, p))
        return cur
    if not isinstance(v, StrV):
        raise NoLang(f"not a string value: {v!r}")
    if v.lits is not None:
        return _strings_nfa(sorted(v.lits))
    if hasattr(v, "concat"):
        a, b = v.concat
        return _concat(string_nfa(I, a), string_nfa(I, b))
    if hasattr(v, "op"):
        meth, base, args = v.op
        b = string_nfa(I, base)
        if meth == "replace" and len(args) == 2 and all(isinstance(a, Const) for a in args) and len(args[0].value) == 1 and args[1].value == "":
            return erase_chars(b, cs([ord(args[0].value)]))
        if meth in ("strip", "lstrip", "rstrip") and not args:
            return strip_chars(b, SPACE)
        if meth in ("strip", "lstrip", "rstrip") and len(args) == 1 and isinstance(args[0], Const) and isinstance(args[0].value, str):
            # (the argument is a *set* of characters, not a prefix)
            mask = cs([ord(c_) for c_ in args[0].value])
            if meth in ("lstrip", "strip"):
                b = lstrip_chars(b, mask)
            if meth in ("rstrip", "strip"):
                b = rstrip_chars(b, mask)
            return b
        if meth in ("upper", "lower"):
            return b
        if meth == "rematch":
            pat, kind = args[0].value, args[1].value
            return longest_prefix_match(b, pat, full=(kind == "fullmatch"))
        raise NoLang(f"string operation .{meth}()")
    if hasattr(v, "slice_of"):
        base, lo, hi = v.slice_of
        full = getattr(base, "full", False)
        node = getattr(base, "node", None)
        if full:
            if node is None:
                raise NoLang("full_text without node")
            b = node_nfa(I, node)
            # lo / hi are positions relative to node.start / node.end
            lo_k = _rel(lo, "start")
            if lo_k is None or lo_k < 0:
                raise NoLang(f"slice start {lo!r}")
            b = drop_first(b, lo_k)
            if hasattr(hi, "min_of"):
                xs = hi.min_of
                ke = _rel(xs[0], "end")
                ks = _rel(xs[1], "start")
                if ke == 0 and ks is not None:
                    return prefix_upto(b, ks - lo_k)
                ke = _rel(xs[1], "end")
                ks = _rel(xs[0], "start")
                if ke == 0 and ks is not None:
                    return prefix_upto(b, ks - lo_k)
                raise NoLang("min() bounds")
            hi_k = _rel(hi, "end")
            if hi_k is None or hi_k > 0:
                hs = _rel(hi, "start")
                if hs is not None:
                    return prefix_upto(b, hs - lo_k)
                raise NoLang(f"slice end {hi!r}")
            return drop_last(b, -hi_k)
        b = string_nfa(I, base)
        lo_c = lo.value if isinstance(lo, Const) else None
        hi_c = hi.value if isinstance(hi, Const) else None
        if isinstance(lo, NumV) and hasattr(lo, "find"):
            sbase, fargs, k = lo.find
            if _prov(sbase) != _prov(base):
                raise PositionMismatch(f"the cut position is computed with .find() on `{sbase!r}` but applied to `{base!r}`")
            if k == 1 and len(fargs) == 1 and isinstance(fargs[0], Const) and len(fargs[0].value) == 1 and (hi_c is None):
                return suffix_after_first(b, fargs[0].value)
            raise NoLang("find()-based slice")
        if isinstance(lo, Const) and isinstance(hi, Const):
            if (lo_c or 0) >= 0:
                b = drop_first(b, lo_c or 0)
                if hi_c is None:
                    return b
                if hi_c >= 0:
                    return prefix_upto(b, hi_c - (lo_c or 0))
                return drop_last(b, -hi_c)
        raise NoLang(f"slice [{lo!r}:{hi!r}]")
    if getattr(v, "node", None) is not None and not getattr(v, "full", False):
        return node_nfa(I, v.node)
    raise NoLang(f"string of unknown provenance: {v!r}")


class PositionMismatch(NoLang):
    """A position found in one string is used to cut another one."""


def _prov(v: V):
    """Structural provenance of a string value (same provenance = same run-time string)."""
    if isinstance(v, Const):
        return ("const", v.value)
    if hasattr(v, "op"):
        meth, base, args = v.op
        return ("op", meth, tuple(_prov(a) for a in args), _prov(base))
    if hasattr(v, "slice_of"):
        b, lo, hi = v.slice_of
        return ("slice", _prov(b), repr(lo), repr(hi))
    if hasattr(v, "concat"):
        return ("concat", _prov(v.concat[0]), _prov(v.concat[1]))
    node = getattr(v, "node", None)
    if node is not None:
        return ("text", getattr(v, "full", False), id(node.expr), tuple(node.path))
    return ("obj", id(v))


def _rel(x: V, which: str) -> Optional[int]:
    if isinstance(x, NumV) and hasattr(x, "rel") and x.rel[0] == which:
        return x.rel[1]
    return None


def string_lang(I: Interp, v: V) -> Lang:
    return Lang.from_nfa(string_nfa(I, v))
