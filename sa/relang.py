"""M8: regular-language engine on top of `re._parser`.

Alphabet: code points 0..127 plus one symbol (128) that stands for every
non-ASCII character.  Character sets are Python ints used as bit masks.
Supported: literals, classes, categories \\d \\s \\w, ., |, groups, greedy and lazy
repeats, (?i), `$` / `\\Z` at the end.  Look-arounds are *not* part of the
automaton: they are skipped (over-approximation) and `Lang.approx` is set, so
any witness derived from such a language has to be confirmed with
`confirm()` (which asks Python's own regex engine about the *pattern*, never
about repository code).
"""

from __future__ import annotations

import re
import re._constants as sc
import re._parser as sp
from typing import Dict, FrozenSet, Iterable, List, Optional, Set, Tuple

NSYM = 129
OTHER = 128
FULL = (1 << NSYM) - 1


class Unsupported(Exception):
    pass


def cs(chars: Iterable[int]) -> int:
    m = 0
    for c in chars:
        m |= 1 << (c if c < 128 else OTHER)
    return m


DIGIT = cs(range(48, 58))
SPACE = cs([32, 9, 10, 11, 12, 13])
WORD = cs(list(range(48, 58)) + list(range(65, 91)) + list(range(97, 123)) + [95]) | (1 << OTHER)
NEWLINE = cs([10])


def _fold(m: int) -> int:
    out = m
    for c in range(65, 91):
        if m >> c & 1:
            out |= 1 << (c + 32)
    for c in range(97, 123):
        if m >> c & 1:
            out |= 1 << (c - 32)
    return out


class NFA:
    def __init__(self):
        self.trans: List[List[Tuple[int, int]]] = []  # state -> [(mask or 0 for eps, target)]
        self.start = self.new()
        self.accept: Set[int] = set()
        self.approx = False

    def new(self) -> int:
        self.trans.append([])
        return len(self.trans) - 1

    def add(self, a: int, mask: int, b: int):
        self.trans[a].append((mask, b))

    def eps(self, a: int, b: int):
        self.trans[a].append((0, b))

    def closure(self, states: Iterable[int]) -> FrozenSet[int]:
        st = list(states)
        seen = set(st)
        while st:
            s = st.pop()
            for m, t in self.trans[s]:
                if m == 0 and t not in seen:
                    seen.add(t)
                    st.append(t)
        return frozenset(seen)


def _class_mask(items, flags) -> int:
    neg = False
    m = 0
    for op, av in items:
        if op is sc.NEGATE:
            neg = True
        elif op is sc.LITERAL:
            m |= cs([av])
        elif op is sc.RANGE:
            lo, hi = av
            m |= cs(range(lo, min(hi, 127) + 1))
            if hi > 127:
                m |= 1 << OTHER
        elif op is sc.CATEGORY:
            m |= _cat(av)
        else:
            raise Unsupported(f"class item {op}")
    if flags & re.IGNORECASE:
        m = _fold(m)
    if neg:
        m = FULL & ~m
    return m


def _cat(av) -> int:
    if av is sc.CATEGORY_DIGIT:
        return DIGIT
    if av is sc.CATEGORY_NOT_DIGIT:
        return FULL & ~DIGIT
    if av is sc.CATEGORY_SPACE:
        return SPACE
    if av is sc.CATEGORY_NOT_SPACE:
        return FULL & ~SPACE
    if av is sc.CATEGORY_WORD:
        return WORD
    if av is sc.CATEGORY_NOT_WORD:
        return FULL & ~WORD
    raise Unsupported(f"category {av}")


def _build(nfa: NFA, items, flags: int, s: int) -> int:
    """Append the automaton for the item sequence starting at state s; return end state."""
    cur = s
    items = list(items)
    for idx, (op, av) in enumerate(items):
        if op is sc.LITERAL:
            m = cs([av])
            if flags & re.IGNORECASE:
                m = _fold(m)
            n = nfa.new()
            nfa.add(cur, m, n)
            cur = n
        elif op is sc.NOT_LITERAL:
            m = cs([av])
            if flags & re.IGNORECASE:
                m = _fold(m)
            n = nfa.new()
            nfa.add(cur, FULL & ~m, n)
            cur = n
        elif op is sc.ANY:
            n = nfa.new()
            nfa.add(cur, FULL if flags & re.DOTALL else FULL & ~NEWLINE, n)
            cur = n
        elif op is sc.IN:
            n = nfa.new()
            nfa.add(cur, _class_mask(av, flags), n)
            cur = n
        elif op is sc.BRANCH:
            _, alts = av
            end = nfa.new()
            for alt in alts:
                a0 = nfa.new()
                nfa.eps(cur, a0)
                a1 = _build(nfa, alt, flags, a0)
                nfa.eps(a1, end)
            cur = end
        elif op is sc.SUBPATTERN:
            _, add_flags, del_flags, sub = av
            cur = _build(nfa, sub, (flags | add_flags) & ~del_flags, cur)
        elif op in (sc.MAX_REPEAT, sc.MIN_REPEAT, getattr(sc, "POSSESSIVE_REPEAT", None)):
            lo, hi, sub = av
            for _ in range(lo):
                cur = _build(nfa, sub, flags, cur)
            if hi is sc.MAXREPEAT:
                a0 = nfa.new()
                nfa.eps(cur, a0)
                a1 = _build(nfa, sub, flags, a0)
                nfa.eps(a1, a0)
                cur = a0
            else:
                if hi - lo > 64:
                    raise Unsupported("large bounded repeat")
                end = nfa.new()
                nfa.eps(cur, end)
                for _ in range(hi - lo):
                    cur = _build(nfa, sub, flags, cur)
                    nfa.eps(cur, end)
                cur = end
        elif op is sc.AT:
            if av in (sc.AT_END, sc.AT_END_STRING) and idx == len(items) - 1:
                continue
            if av in (sc.AT_BEGINNING, sc.AT_BEGINNING_STRING) and idx == 0:
                continue
            nfa.approx = True
        elif op in (sc.ASSERT, sc.ASSERT_NOT):
            nfa.approx = True  # look-around skipped: over-approximation
        elif op is sc.GROUPREF:
            raise Unsupported("backreference")
        else:
            raise Unsupported(f"regex op {op}")
    return cur


class Lang:
    """A regular language as a complete DFA over the 129-symbol alphabet."""

    def __init__(self, trans: List[List[int]], accept: Set[int], start: int = 0, approx: bool = False):
        self.trans = trans
        self.accept = accept
        self.start = start
        self.approx = approx

    # -- construction -----------------------------------------------------
    @classmethod
    def from_nfa(cls, nfa: NFA) -> "Lang":
        start = nfa.closure([nfa.start])
        index: Dict[FrozenSet[int], int] = {start: 0}
        order = [start]
        trans: List[List[int]] = []
        accept: Set[int] = set()
        i = 0
        while i < len(order):
            S = order[i]
            if S & nfa.accept:
                accept.add(i)
            # partition symbols by outgoing masks
            row = [0] * NSYM
            masks = [(m, t) for s in S for (m, t) in nfa.trans[s] if m]
            cache: Dict[FrozenSet[int], int] = {}
            for sym in range(NSYM):
                bit = 1 << sym
                tg = frozenset(t for m, t in masks if m & bit)
                if tg not in cache:
                    T = nfa.closure(tg)
                    if T not in index:
                        index[T] = len(order)
                        order.append(T)
                        if len(order) > 20000:
                            raise Unsupported("automaton too large")
                    cache[tg] = index[T]
                row[sym] = cache[tg]
            trans.append(row)
            i += 1
        return cls(trans, accept, 0, nfa.approx)

    @classmethod
    def from_regex(cls, pattern: str, flags: int = 0) -> "Lang":
        tree = sp.parse(pattern, flags)
        fl = tree.state.flags | flags
        nfa = NFA()
        end = _build(nfa, tree, fl, nfa.start)
        nfa.accept = {end}
        return cls.from_nfa(nfa)

    @classmethod
    def nfa_from_regex(cls, pattern: str, flags: int = 0) -> NFA:
        tree = sp.parse(pattern, flags)
        fl = tree.state.flags | flags
        nfa = NFA()
        end = _build(nfa, tree, fl, nfa.start)
        nfa.accept = {end}
        return nfa

    @classmethod
    def from_strings(cls, strings: Iterable[str]) -> "Lang":
        nfa = NFA()
        for s in strings:
            cur = nfa.start
            for ch in s:
                n = nfa.new()
                nfa.add(cur, cs([ord(ch)]), n)
                cur = n
            nfa.accept.add(cur)
        return cls.from_nfa(nfa)

    # -- algebra ------------------------------------------------------------
    def complement(self) -> "Lang":
        return Lang(self.trans, set(range(len(self.trans))) - self.accept, self.start, self.approx)

    def product(self, other: "Lang", mode: str) -> "Lang":
        index: Dict[Tuple[int, int], int] = {(self.start, other.start): 0}
        order = [(self.start, other.start)]
        trans: List[List[int]] = []
        accept: Set[int] = set()
        i = 0
        while i < len(order):
            a, b = order[i]
            ia, ib = a in self.accept, b in other.accept
            if (mode == "and" and ia and ib) or (mode == "or" and (ia or ib)) or (mode == "diff" and ia and not ib):
                accept.add(i)
            row = []
            ra, rb = self.trans[a], other.trans[b]
            for sym in range(NSYM):
                k = (ra[sym], rb[sym])
                if k not in index:
                    index[k] = len(order)
                    order.append(k)
                row.append(index[k])
            trans.append(row)
            i += 1
        return Lang(trans, accept, 0, self.approx or other.approx)

    def intersect(self, other: "Lang") -> "Lang":
        return self.product(other, "and")

    def minus(self, other: "Lang") -> "Lang":
        return self.product(other, "diff")

    def is_empty(self) -> bool:
        return self.witness() is None

    def witness(self, avoid: Optional[Set[str]] = None, limit: int = 1) -> Optional[str]:
        ws = self.witnesses(limit=1, avoid=avoid)
        return ws[0] if ws else None

    def witnesses(self, limit: int = 5, avoid: Optional[Set[str]] = None, maxlen: int = 24) -> List[str]:
        """Shortest accepted strings, breadth first (one representative char per symbol class)."""
        out: List[str] = []
        avoid = avoid or set()
        frontier = [(self.start, "")]
        seen_len: Dict[int, int] = {}
        steps = 0
        while frontier and len(out) < limit and steps < 200000:
            nxt = []
            for st, w in frontier:
                steps += 1
                if st in self.accept and w not in avoid and w not in out:
                    out.append(w)
                    if len(out) >= limit:
                        break
                if len(w) >= maxlen:
                    continue
                row = self.trans[st]
                done = set()
                for sym in _PREFERRED:
                    t = row[sym]
                    key = t
                    if key in done:
                        continue
                    done.add(key)
                    if seen_len.get(t, 0) > 40:
                        continue
                    seen_len[t] = seen_len.get(t, 0) + 1
                    nxt.append((t, w + (chr(sym) if sym < 128 else "é")))
            frontier = nxt
        return out

    def included_in(self, other: "Lang") -> Tuple[bool, Optional[str]]:
        d = self.minus(other)
        w = d.witness()
        return (w is None, w)

    def equals(self, other: "Lang") -> Tuple[bool, Optional[str]]:
        ok, w = self.included_in(other)
        if not ok:
            return False, w
        return other.included_in(self)

    def accepts(self, s: str) -> bool:
        st = self.start
        for ch in s:
            o = ord(ch)
            st = self.trans[st][o if o < 128 else OTHER]
        return st in self.accept


# symbols tried first when synthesising witnesses: readable ones
_PREFERRED = (
    [ord(c) for c in "1A.E+- 0F$H&a_\"x,:;()=<>*/^'"]
    + [c for c in range(33, 127)]
    + [10, 13, 9, 0]
    + [c for c in range(0, 32)]
    + [127, OTHER]
)
_seen = set()
_PREFERRED = [c for c in _PREFERRED if not (c in _seen or _seen.add(c))]


# ---------------------------------------------------------------------------
# NFA transformations used for visitor normalisations


def erase_chars(nfa: NFA, mask: int) -> NFA:
    """Homomorphism that deletes every character in `mask` (`.replace(c, "")`)."""
    out = NFA()
    out.trans = [[] for _ in nfa.trans]
    out.start = nfa.start
    out.accept = set(nfa.accept)
    out.approx = nfa.approx
    for s, row in enumerate(nfa.trans):
        for m, t in row:
            if m == 0:
                out.trans[s].append((0, t))
            else:
                keep = m & ~mask
                if keep:
                    out.trans[s].append((keep, t))
                if m & mask:
                    out.trans[s].append((0, t))
    return out


def suffix_after_first(nfa: NFA, ch: str) -> NFA:
    """{ v : u ch v in L, ch not in u }  -  `text[text.find(ch) + 1:]`."""
    bit = cs([ord(ch)])
    # states reachable from start without reading `ch`
    reach = set(nfa.closure([nfa.start]))
    work = list(reach)
    while work:
        s = work.pop()
        for m, t in nfa.trans[s]:
            if m == 0 or (m & ~bit):
                for u in nfa.closure([t]):
                    if u not in reach:
                        reach.add(u)
                        work.append(u)
    out = NFA()
    out.trans = [list(r) for r in nfa.trans]
    out.start = out.new()
    out.accept = set(nfa.accept)
    out.approx = nfa.approx
    for s in reach:
        for m, t in nfa.trans[s]:
            if m & bit:
                out.eps(out.start, t)
    return out


def strip_chars(nfa: NFA, mask: int) -> NFA:
    """`.strip(chars)`: remove leading and trailing characters of `mask` (over-approximates by
    allowing any split; exact for the use made here because the result is only tested for
    inclusion in languages that do not start or end with those characters)."""
    out = NFA()
    out.trans = [list(r) for r in nfa.trans]
    out.approx = nfa.approx
    # leading: from the start, characters in mask may be skipped
    lead = set(nfa.closure([nfa.start]))
    work = list(lead)
    while work:
        s = work.pop()
        for m, t in nfa.trans[s]:
            if m == 0 or (m & mask):
                for u in nfa.closure([t]):
                    if u not in lead:
                        lead.add(u)
                        work.append(u)
    out.start = out.new()
    for s in lead:
        out.eps(out.start, s)
    # trailing: states from which an accepting state is reachable through mask characters only
    acc = set(nfa.accept)
    changed = True
    while changed:
        changed = False
        for s, row in enumerate(nfa.trans):
            if s in acc:
                continue
            for m, t in row:
                if t in acc and (m == 0 or (m & mask)):
                    acc.add(s)
                    changed = True
                    break
    out.accept = acc
    return out


def lstrip_chars(nfa: NFA, mask: int) -> NFA:
    """Exact `.lstrip(chars)`: { w : u.w in L, u made of `mask` characters, w empty or not starting with one }."""
    out = NFA()
    n = len(nfa.trans)
    # states 0..n-1: the original automaton (phase B: output); n..2n-1: phase A (still stripping, nothing output yet)
    out.trans = [list(r) for r in nfa.trans] + [[] for _ in range(n)]
    out.approx = nfa.approx
    for s, row in enumerate(nfa.trans):
        for m, t in row:
            if m == 0:
                out.trans[n + s].append((0, n + t))
            else:
                if m & mask:
                    out.trans[n + s].append((0, n + t))  # stripped, not output
                keep = m & ~mask
                if keep:
                    out.trans[n + s].append((keep, t))  # first character that stays
    out.start = n + nfa.start
    out.accept = set(nfa.accept) | {n + a for a in nfa.accept}
    return out


def reverse_nfa(nfa: NFA) -> NFA:
    out = NFA()
    out.trans = [[] for _ in nfa.trans]
    out.approx = nfa.approx
    for s, row in enumerate(nfa.trans):
        for m, t in row:
            out.trans[t].append((m, s))
    out.start = out.new()
    for a in nfa.accept:
        out.eps(out.start, a)
    out.accept = {nfa.start}
    return out


def rstrip_chars(nfa: NFA, mask: int) -> NFA:
    return reverse_nfa(lstrip_chars(reverse_nfa(nfa), mask))


def confirm(pattern: str, text: str, flags: int = 0) -> bool:
    """Ask Python's regex engine whether `text` is matched completely by `pattern`."""
    try:
        return re.fullmatch(pattern, text, flags) is not None
    except re.error:
        return False


def edge_absorbs_blanks(pattern: str, side: str) -> bool:
    """Does every alternative of the regex start (side='lead') / end (side='trail') with an unbounded
    repeat over a set that contains the blank?  (blanks next to the token are taken by the token)"""
    try:
        tree = sp.parse(pattern)
    except re.error:
        return False

    def seq_ok(items) -> bool:
        items = [it for it in items if it[0] not in (sc.AT,)]
        if not items:
            return False
        op, av = items[0] if side == "lead" else items[-1]
        if op is sc.SUBPATTERN:
            return seq_ok(av[3])
        if op is sc.BRANCH:
            return all(seq_ok(a) for a in av[1])
        if op in (sc.MAX_REPEAT, sc.MIN_REPEAT) and av[1] is sc.MAXREPEAT:
            sub = av[2]
            if len(sub) == 1:
                o, a = sub[0]
                if o is sc.LITERAL:
                    return a == 32
                if o is sc.IN:
                    return bool(_class_mask(a, 0) >> 32 & 1)
                if o is sc.ANY:
                    return True
        return False

    return seq_ok(list(tree))
