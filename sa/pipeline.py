"""M9: the pass pipeline of convert(), option slices, argparse declarations."""

from __future__ import annotations

import ast
import copy
from dataclasses import dataclass, field
from typing import Dict, List, Optional, Set, Tuple

from .core import AnalysisError, Ctx
from .pyast import PyFacts, pyfacts, unparse, walk_no_nested, names_loaded

COMPILER_REL = "coco/b09/compiler.py"
VISITORS_REL = "coco/b09/visitors.py"
CLI_REL = "coco/decb_to_b09.py"


@dataclass
class Pass:
    cls: str
    line: int
    var: Optional[str]  # local the visitor object is bound to
    ctor: ast.Call
    conds: List[str]  # enclosing if-tests (source text), outermost first
    index: int  # ordinal of the visit call in source order


@dataclass
class Insertion:
    method: str  # insert_lines_at_beginning | extend_prefix_lines | append_lines
    line: int
    arg: ast.AST
    conds: List[str]
    index: int


class Pipeline:
    def __init__(self, ctx: Ctx):
        self.ctx = ctx
        self.py = pyfacts(ctx)
        m = self.py.mod(COMPILER_REL)
        if "convert" not in m.functions:
            raise AnalysisError("M9", "convert", "function convert() not found in compiler.py")
        self.fn = m.functions["convert"]
        self.convert_file = m.functions.get("convert_file")
        self.prog_var = None
        self.passes: List[Pass] = []
        self.insertions: List[Insertion] = []
        self.raises: List[Tuple[int, str, List[str], int]] = []  # (line, class, conds, index)
        self.emit_index: Optional[int] = None
        self.emit_line = 0
        self.events: List[Tuple[int, str, object]] = []
        self._bind: Dict[str, ast.Call] = {}
        self._class_alts: Dict[str, List[str]] = {}
        self._counter = 0
        self._unresolved: List[Tuple[str, int, str]] = []
        self._walk(self.fn.body, [])
        for recv, line, txt in self._unresolved:
            if recv == self.prog_var:
                raise AnalysisError("M9", f"convert:{line}", f"cannot resolve the visitor passed to {txt}")
        if not self.passes:
            raise AnalysisError("M9", "convert", "no `<prog>.visit(<visitor>)` pass found")
        ctx.units["pipeline_passes"] = len(self.passes)

    def _walk(self, body, conds):
        for st in body:
            if isinstance(st, ast.If):
                self._scan(st.test, conds)
                t = unparse(st.test)
                self._walk(st.body, conds + [t])
                self._walk(st.orelse, conds + [f"not ({t})"])
                continue
            if isinstance(st, (ast.For, ast.While)):
                self._walk(st.body, conds + ["<loop>"])
                continue
            if isinstance(st, ast.Raise):
                self._counter += 1
                cls = "?"
                if isinstance(st.exc, ast.Call) and isinstance(st.exc.func, ast.Name):
                    cls = st.exc.func.id
                elif isinstance(st.exc, ast.Name):
                    cls = st.exc.id
                self.raises.append((st.lineno, cls, list(conds), self._counter))
                continue
            if isinstance(st, (ast.Assign, ast.AnnAssign)):
                tgt = st.targets[0] if isinstance(st, ast.Assign) else st.target
                val = st.value
                if isinstance(tgt, ast.Name) and val is not None:
                    chosen = [val.body, val.orelse] if isinstance(val, ast.IfExp) else [val]
                    if all(isinstance(x, ast.Name) and x.id in self.py.classes for x in chosen):
                        self._class_alts.setdefault(tgt.id, [])
                        self._class_alts[tgt.id] += [x.id for x in chosen if x.id not in self._class_alts[tgt.id]]
                    for c in ast.walk(val):
                        if isinstance(c, ast.Call) and isinstance(c.func, ast.Name) and c.func.id in self.py.classes:
                            self._bind.setdefault(tgt.id + "#all", None)
                    if isinstance(val, ast.Call) and isinstance(val.func, ast.Name):
                        self._bind[tgt.id] = val
                    elif isinstance(val, ast.IfExp):
                        self._bind[tgt.id] = val  # conditional choice of visitor
            self._scan(st, conds)

    def prologue(self) -> Optional[ast.List]:
        """The display of lines handed to the first `insert_lines_at_beginning` that is made under a condition on
        `add_standard_prefix` (by role: whatever the local holding it is called)."""
        for ins in sorted(self.insertions, key=lambda i: i.index):
            if ins.method == "insert_lines_at_beginning" and any("add_standard_prefix" in c for c in ins.conds):
                a = ins.arg
                for _ in range(3):
                    if isinstance(a, ast.Name):
                        bs = [n.value for n in ast.walk(self.fn) if isinstance(n, (ast.Assign, ast.AnnAssign)) and n.value is not None and isinstance((n.targets[0] if isinstance(n, ast.Assign) else n.target), ast.Name) and (n.targets[0] if isinstance(n, ast.Assign) else n.target).id == a.id]
                        if len(bs) != 1:
                            return None
                        a = bs[0]
                return a if isinstance(a, ast.List) else None
        return None

    def _scan(self, node, conds):
        for n in ast.walk(node):
            if not isinstance(n, ast.Call) or not isinstance(n.func, ast.Attribute):
                continue
            f = n.func
            if f.attr == "visit" and isinstance(f.value, ast.Name) and n.args:
                a = n.args[0]
                ctors: List[Tuple[ast.Call, Optional[str]]] = []
                if isinstance(a, ast.Call) and isinstance(a.func, ast.Name):
                    ctors.append((a, None))
                elif isinstance(a, ast.Name) and a.id in self._bind:
                    b = self._bind[a.id]
                    if False:
                        pass
                    elif isinstance(b, ast.Call):
                        ctors.append((b, a.id))
                    elif isinstance(b, ast.IfExp):
                        for alt in (b.body, b.orelse):
                            if isinstance(alt, ast.Call) and isinstance(alt.func, ast.Name):
                                ctors.append((alt, a.id))
                if not ctors:
                    self._unresolved.append((f.value.id, n.lineno, unparse(n)))
                    continue
                self.prog_var = self.prog_var or f.value.id
                self._counter += 1
                expanded = []
                for c, var in ctors:
                    # the class is chosen first, then called: `cls = A if opt else B; v = cls(args)` is `A(args) if opt else B(args)`
                    alts = self._class_alts.get(c.func.id) if c.func.id not in self.py.classes else None
                    if alts:
                        for alt in alts:
                            c2 = copy.deepcopy(c)
                            c2.func = ast.copy_location(ast.Name(id=alt, ctx=ast.Load()), c.func)
                            expanded.append((c2, var))
                    else:
                        expanded.append((c, var))
                for c, var in expanded:
                    if c.func.id not in self.py.classes:
                        raise AnalysisError("M9", f"convert:{n.lineno}", f"visitor class {c.func.id} not found")
                    self.passes.append(Pass(c.func.id, n.lineno, var, c, list(conds), self._counter))
            elif f.attr in ("insert_lines_at_beginning", "extend_prefix_lines", "append_lines") and n.args:
                self._counter += 1
                self.insertions.append(Insertion(f.attr, n.lineno, n.args[0], list(conds), self._counter))
            elif f.attr == "basic09_text" and isinstance(f.value, ast.Name) and f.value.id == (self.prog_var or f.value.id) and self.emit_index is None:
                if self.prog_var is not None and f.value.id == self.prog_var:
                    self._counter += 1
                    self.emit_index = self._counter
                    self.emit_line = n.lineno

    # ------------------------------------------------------------------
    def first(self, cls: str) -> Optional[Pass]:
        for p in self.passes:
            if p.cls == cls:
                return p
        return None

    def classes_where(self, pred) -> List[str]:
        return [c for c in sorted({p.cls for p in self.passes}) if pred(c)]


def pipeline(ctx: Ctx) -> Pipeline:
    return ctx.engine("pipeline", Pipeline)


# ---------------------------------------------------------------------------
# forward slice of an option inside one function


def _direct_names(e: ast.AST) -> Set[str]:
    """Names loaded in e, not counting those inside nested calls (each call is its own sink)."""
    out: Set[str] = set()
    stack = [] if isinstance(e, ast.Call) else [e]
    while stack:
        n = stack.pop()
        if isinstance(n, ast.Name) and isinstance(n.ctx, ast.Load):
            out.add(n.id)
        for c in ast.iter_child_nodes(n):
            if isinstance(c, ast.Call):
                continue
            stack.append(c)
    return out


def option_slice(fn: ast.FunctionDef, option: str, classes: Optional[Set[str]] = None):
    """Where does the value of parameter `option` flow inside fn?

    data sinks   : (callee, keyword-or-position, line) of every call that receives a tainted scalar directly
    control sinks: callees invoked / locals assigned / raises under a condition on a tainted scalar
    Taint propagates through local assignments whose right-hand side builds no object (no constructor
    call, no method call on an object): objects configured by an option are followed through the sink
    table of the rule, not through the slice."""
    classes = classes or set()
    tainted: Set[str] = {option}

    def is_tainted(e: ast.AST) -> bool:
        return bool(names_loaded(e) & tainted)

    def class_value(v: ast.AST) -> List[str]:
        """`A` or `A if c else B` with A, B classes: a constructor chosen now and called later."""
        alts = [v.body, v.orelse] if isinstance(v, ast.IfExp) else [v]
        if all(isinstance(x, ast.Name) and (x.id in classes or (not classes and x.id[:1].isupper())) for x in alts):
            return [x.id for x in alts]
        return []

    def scalar_rhs(v: ast.AST) -> bool:
        if class_value(v):
            return False
        for c in ast.walk(v):
            if isinstance(c, ast.Call):
                if isinstance(c.func, ast.Name) and (c.func.id in classes or c.func.id[:1].isupper()):
                    return False
        return True

    changed = True
    rounds = 0
    while changed and rounds < 10:
        changed = False
        rounds += 1
        for n in walk_no_nested(fn):
            tgt = val = None
            if isinstance(n, ast.Assign) and len(n.targets) == 1 and isinstance(n.targets[0], ast.Name):
                tgt, val = n.targets[0].id, n.value
            elif isinstance(n, ast.AnnAssign) and isinstance(n.target, ast.Name) and n.value is not None:
                tgt, val = n.target.id, n.value
            elif isinstance(n, ast.NamedExpr):
                tgt, val = n.target.id, n.value
            if tgt and val is not None and tgt not in tainted and scalar_rhs(val) and (_direct_names(val) & tainted):
                tainted.add(tgt)
                changed = True
        # names assigned (scalar) under tainted conditions
        def walk(body, under):
            nonlocal changed
            for st in body:
                if isinstance(st, ast.If):
                    t = is_tainted(st.test)
                    walk(st.body, under or t)
                    walk(st.orelse, under or t)
                elif isinstance(st, (ast.For, ast.While)):
                    walk(st.body, under)
                elif under and isinstance(st, ast.Assign) and scalar_rhs(st.value):
                    for t_ in st.targets:
                        if isinstance(t_, ast.Name) and t_.id not in tainted:
                            tainted.add(t_.id)
                            changed = True
        walk(fn.body, False)

    data: Set[Tuple[str, str, int]] = set()
    control: Set[Tuple[str, int]] = set()

    def walk2(body, under):
        for st in body:
            if isinstance(st, ast.If):
                t = is_tainted(st.test)
                walk2(st.body, under or t)
                walk2(st.orelse, under or t)
            elif isinstance(st, (ast.For, ast.While)):
                walk2(st.body, under)
            elif under:
                for n in ast.walk(st):
                    if isinstance(n, ast.Call):
                        control.add((_callee(n), n.lineno))
                # (binding a local is not an effect of its own: what is computed for it - the calls above - is;
                # binding it to a class is choosing the call made through it)
                if isinstance(st, (ast.Assign, ast.AnnAssign)) and st.value is not None:
                    for cname in class_value(st.value):
                        control.add((cname, st.lineno))
                if isinstance(st, ast.Raise):
                    control.add(("raise", st.lineno))

    walk2(fn.body, False)
    for n in walk_no_nested(fn):
        if isinstance(n, ast.Call):
            for i, a in enumerate(n.args):
                if _direct_names(a) & tainted:
                    data.add((_callee(n), str(i), n.lineno))
            for k in n.keywords:
                if _direct_names(k.value) & tainted:
                    data.add((_callee(n), k.arg or "**", n.lineno))
        elif isinstance(n, ast.IfExp) and is_tainted(n.test):
            for alt in (n.body, n.orelse):
                calls = [c for c in ast.walk(alt) if isinstance(c, ast.Call)]
                for c in calls:
                    control.add((_callee(c), c.lineno))
                if not calls and class_value(alt):
                    control.add((alt.id, n.lineno))
                elif not calls:
                    control.add((f"const:{unparse(alt)}", n.lineno))
    return {"data": sorted(data), "control": sorted(control), "tainted": sorted(tainted)}


def _callee(n: ast.Call) -> str:
    f = n.func
    if isinstance(f, ast.Name):
        return f.id
    if isinstance(f, ast.Attribute):
        return f.attr
    return unparse(f)
