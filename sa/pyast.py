"""M1: Python facts - modules, classes, MRO, method resolution, small helpers."""

from __future__ import annotations

import ast
from dataclasses import dataclass, field
from pathlib import Path
from typing import Dict, Iterator, List, Optional, Tuple

from .core import AnalysisError, Ctx


@dataclass
class ClassInfo:
    name: str
    module: str
    node: ast.ClassDef
    bases: List[str]
    methods: Dict[str, ast.FunctionDef] = field(default_factory=dict)
    properties: Dict[str, ast.FunctionDef] = field(default_factory=dict)
    setters: Dict[str, ast.FunctionDef] = field(default_factory=dict)
    classmethods: Dict[str, ast.FunctionDef] = field(default_factory=dict)


class _NameSubst(ast.NodeTransformer):
    def __init__(self, mapping):
        self.m = mapping

    def visit_Name(self, n):
        if n.id in self.m and isinstance(n.ctx, ast.Load):
            import copy as _c

            return ast.copy_location(_c.deepcopy(self.m[n.id]), n)
        return n


def expand_class_aliases(tree: ast.Module) -> None:
    """Class-level `name = other_method` and `name = partialmethod(method, a, b)` become real method definitions
    (a copy of the method; for partialmethod with the leading parameters replaced by the given expressions), so that
    everything that reads classes method by method sees them.  In place; nothing is executed."""
    import copy as _c

    for cls in [n for n in ast.walk(tree) if isinstance(n, ast.ClassDef)]:
        defs = {}
        new_body = []
        for st in cls.body:
            if isinstance(st, ast.FunctionDef):
                defs[st.name] = st
                new_body.append(st)
                continue
            made = None
            if isinstance(st, ast.Assign) and len(st.targets) > 1 and all(isinstance(t_, ast.Name) for t_ in st.targets) and isinstance(st.value, ast.Name) and st.value.id in defs:
                # a = b = method
                for t_ in st.targets:
                    m_ = _c.deepcopy(defs[st.value.id])
                    m_.name = t_.id
                    defs[t_.id] = m_
                    new_body.append(m_)
                continue
            if isinstance(st, ast.Assign) and len(st.targets) == 1 and isinstance(st.targets[0], ast.Name):
                tgt, v = st.targets[0].id, st.value
                if isinstance(v, ast.Name) and v.id in defs:
                    made = _c.deepcopy(defs[v.id])
                    made.name = tgt
                elif isinstance(v, ast.Call) and (getattr(v.func, "id", None) == "partialmethod" or getattr(v.func, "attr", None) == "partialmethod") and v.args and isinstance(v.args[0], ast.Name) and v.args[0].id in defs and not v.keywords:
                    base = defs[v.args[0].id]
                    extra = v.args[1:]
                    params = base.args.args
                    static = any(isinstance(d, ast.Name) and d.id == "staticmethod" for d in base.decorator_list)
                    first = 0 if static else 1
                    if len(extra) <= len(params) - first and not any(isinstance(x, ast.Starred) for x in extra):
                        made = _c.deepcopy(base)
                        made.name = tgt
                        bound = {params[first + i].arg: extra[i] for i in range(len(extra))}
                        made.args.args = made.args.args[:first] + made.args.args[first + len(extra) :]
                        made.body = [_NameSubst(bound).visit(b) for b in made.body]
            if made is not None:
                defs[tgt] = made
                new_body.append(made)
            else:
                new_body.append(st)
        cls.body = new_body
    ast.fix_missing_locations(tree)


NORMALISED_MODULES = {"coco/b09/visitors.py", "coco/b09/compiler.py", "coco/b09/error_handler.py", "coco/decb_to_b09.py", "coco/b09/elements.py"}


class Module:
    def __init__(self, rel: str, path: Path):
        self.rel = rel
        self.path = path
        self.source = path.read_text()
        try:
            self.tree = ast.parse(self.source, filename=str(path))
        except SyntaxError as e:
            raise AnalysisError("ANCHOR", rel, f"does not parse: {e}")
        expand_class_aliases(self.tree)
        if rel in NORMALISED_MODULES:
            # the passes are read in flattened form: private helper methods and small module-level helpers inlined,
            # module-level constants propagated (see sa/normalise.py); reports keep the line of the call site
            from .normalise import normalise_module

            self.tree = normalise_module(self.tree)
        self.functions: Dict[str, ast.FunctionDef] = {}
        self.classes: Dict[str, ClassInfo] = {}
        self.assigns: Dict[str, ast.AST] = {}
        for n in self.tree.body:
            if isinstance(n, ast.FunctionDef):
                self.functions[n.name] = n
            elif isinstance(n, ast.ClassDef):
                self.classes[n.name] = _classinfo(n, rel)
            elif isinstance(n, ast.Assign) and len(n.targets) == 1 and isinstance(n.targets[0], ast.Name):
                self.assigns[n.targets[0].id] = n.value
            elif isinstance(n, ast.AnnAssign) and isinstance(n.target, ast.Name) and n.value is not None:
                self.assigns[n.target.id] = n.value


def _deco_names(fn: ast.FunctionDef) -> List[str]:
    out = []
    for d in fn.decorator_list:
        try:
            out.append(ast.unparse(d))
        except Exception:
            out.append("?")
    return out


def _classinfo(n: ast.ClassDef, rel: str) -> ClassInfo:
    bases = []
    for b in n.bases:
        if isinstance(b, ast.Name):
            bases.append(b.id)
        elif isinstance(b, ast.Attribute):
            bases.append(b.attr)
    ci = ClassInfo(n.name, rel, n, bases)
    for m in n.body:
        if isinstance(m, ast.FunctionDef):
            decos = _deco_names(m)
            if "property" in decos:
                ci.properties[m.name] = m
            elif any(d.endswith(".setter") for d in decos):
                ci.setters[m.name] = m
                # a setter whose function name differs from the property is
                # registered under the property name given by the decorator
                for d in decos:
                    if d.endswith(".setter"):
                        ci.setters[d[: -len(".setter")]] = m
            elif "classmethod" in decos:
                ci.classmethods[m.name] = m
            else:
                ci.methods[m.name] = m
    return ci


class PyFacts:
    """All python modules under coco/ with a flat class table for coco/b09."""

    B09 = ["elements", "parser", "visitors", "compiler", "prog", "procbank", "error_handler", "grammar", "configs"]

    def __init__(self, ctx: Ctx):
        self.ctx = ctx
        self.modules: Dict[str, Module] = {}
        root = ctx.repo / "coco"
        if not root.is_dir():
            raise AnalysisError("ANCHOR", "coco/", "package directory not found")
        for p in sorted(root.rglob("*.py")):
            rel = str(p.relative_to(ctx.repo))
            self.modules[rel] = Module(rel, p)
        self.classes: Dict[str, ClassInfo] = {}
        for rel, m in self.modules.items():
            if rel.startswith("coco/b09/"):
                for cn, ci in m.classes.items():
                    self.classes[cn] = ci
        ctx.units["python_modules"] = len(self.modules)
        ctx.units["b09_classes"] = len(self.classes)

    def mod(self, rel: str) -> Module:
        if rel not in self.modules:
            raise AnalysisError("ANCHOR", rel, "module not found")
        return self.modules[rel]

    def cls(self, name: str) -> ClassInfo:
        if name not in self.classes:
            raise AnalysisError("ANCHOR", name, "class not found in coco/b09")
        return self.classes[name]

    def mro(self, name: str) -> List[ClassInfo]:
        out = []
        seen = set()
        cur = name
        while cur in self.classes and cur not in seen:
            seen.add(cur)
            ci = self.classes[cur]
            out.append(ci)
            nxt = None
            for b in ci.bases:
                if b in self.classes:
                    nxt = b
                    break
            cur = nxt
        return out

    def is_subclass(self, name: str, base: str) -> bool:
        return any(c.name == base for c in self.mro(name))

    def subclasses(self, base: str) -> List[str]:
        return [n for n in self.classes if self.is_subclass(n, base)]

    def resolve_method(self, cls: str, meth: str) -> Optional[Tuple[ClassInfo, ast.FunctionDef]]:
        for ci in self.mro(cls):
            if meth in ci.methods:
                return ci, ci.methods[meth]
            if meth in ci.classmethods:
                return ci, ci.classmethods[meth]
        return None

    def resolve_property(self, cls: str, name: str) -> Optional[Tuple[ClassInfo, ast.FunctionDef]]:
        for ci in self.mro(cls):
            if name in ci.properties:
                return ci, ci.properties[name]
            if name in ci.methods or name in ci.classmethods:
                return None
        return None

    def resolve_setter(self, cls: str, name: str) -> Optional[Tuple[ClassInfo, ast.FunctionDef]]:
        for ci in self.mro(cls):
            if name in ci.setters:
                return ci, ci.setters[name]
            if name in ci.properties:
                # property redefined without a setter in a nearer class
                return None
        return None

    def property_field(self, cls: str, name: str) -> Optional[str]:
        """`@property def x(self): return self._x` -> '_x' (None if not that shape)."""
        r = self.resolve_property(cls, name)
        if not r:
            return None
        body = [s for s in r[1].body if not _is_doc(s)]
        if len(body) == 1 and isinstance(body[0], ast.Return):
            v = body[0].value
            if isinstance(v, ast.Attribute) and isinstance(v.value, ast.Name) and v.value.id == "self":
                return v.attr
        return None

    def instantiated_classes(self) -> Dict[str, List[Tuple[str, int]]]:
        """Classes constructed somewhere in coco/b09 (call whose func is the bare class name)."""
        out: Dict[str, List[Tuple[str, int]]] = {}
        for rel, m in self.modules.items():
            if not rel.startswith("coco/b09/"):
                continue
            ann = set()
            for n in ast.walk(m.tree):
                # annotations and isinstance() tests mention classes without building them
                for a_ in ([n.annotation] if isinstance(n, (ast.arg, ast.AnnAssign)) and n.annotation is not None else []) + ([n.returns] if isinstance(n, ast.FunctionDef) and n.returns is not None else []):
                    ann |= {id(x) for x in ast.walk(a_)}
                if isinstance(n, ast.Call) and isinstance(n.func, ast.Name) and n.func.id == "isinstance" and len(n.args) == 2:
                    ann |= {id(x) for x in ast.walk(n.args[1])}
                if isinstance(n, ast.ClassDef):
                    for b_ in n.bases:
                        ann |= {id(x) for x in ast.walk(b_)}
            for n in ast.walk(m.tree):
                if isinstance(n, ast.Call) and isinstance(n.func, ast.Name) and n.func.id in self.classes:
                    out.setdefault(n.func.id, []).append((rel, n.lineno))
                elif isinstance(n, ast.Name) and isinstance(n.ctx, ast.Load) and n.id in self.classes and id(n) not in ann and not isinstance(getattr(n, "_parent_call", None), ast.Call):
                    # a class handed around as a value (argument, table entry): it can be instantiated through that value
                    out.setdefault(n.id, []).append((rel, n.lineno))
        return out


def _is_doc(s: ast.stmt) -> bool:
    return isinstance(s, ast.Expr) and isinstance(s.value, ast.Constant) and isinstance(s.value.value, str)


def pyfacts(ctx: Ctx) -> PyFacts:
    return ctx.engine("pyfacts", PyFacts)


# ---------------------------------------------------------------------------
# small AST helpers


def is_self_attr(n: ast.AST, name: Optional[str] = None) -> bool:
    return (
        isinstance(n, ast.Attribute)
        and isinstance(n.value, ast.Name)
        and n.value.id == "self"
        and (name is None or n.attr == name)
    )


def call_name(n: ast.AST) -> Optional[str]:
    if isinstance(n, ast.Call):
        if isinstance(n.func, ast.Name):
            return n.func.id
        if isinstance(n.func, ast.Attribute):
            return n.func.attr
    return None


def walk_no_nested(fn: ast.AST) -> Iterator[ast.AST]:
    """Walk a function body without descending into nested function/class definitions."""
    stack = list(ast.iter_child_nodes(fn))
    while stack:
        n = stack.pop()
        yield n
        if isinstance(n, (ast.FunctionDef, ast.AsyncFunctionDef, ast.ClassDef, ast.Lambda)):
            continue
        stack.extend(ast.iter_child_nodes(n))


def names_loaded(n: ast.AST) -> set:
    return {x.id for x in ast.walk(n) if isinstance(x, ast.Name) and isinstance(x.ctx, ast.Load)}


_UNPARSE: Dict[int, Tuple[ast.AST, str]] = {}


def unparse(n: ast.AST) -> str:
    k = id(n)
    hit = _UNPARSE.get(k)
    if hit is not None and hit[0] is n:
        return hit[1]
    try:
        s = ast.unparse(n)
    except Exception:
        s = "<?>"
    _UNPARSE[k] = (n, s)
    return s


def body_wo_doc(fn: ast.FunctionDef) -> List[ast.stmt]:
    return [s for s in fn.body if not _is_doc(s)]


# ---------------------------------------------------------------------------
# structural patterns with metavariables:  $x = any Name (bound consistently),  $$e = any expression


def _pat(src: str) -> ast.AST:
    import re as _re

    s = _re.sub(r"\$\$(\w+)", r"__ANY_\1", src)
    s = _re.sub(r"\$(\w+)", r"__MV_\1", s)
    try:
        return ast.parse(s, mode="eval").body
    except SyntaxError:
        return ast.parse(s).body[0]


def ast_match(pattern: ast.AST, node: ast.AST, env: Optional[Dict[str, str]] = None) -> bool:
    env = env if env is not None else {}
    if isinstance(pattern, ast.Name):
        if pattern.id.startswith("__ANY_"):
            k = pattern.id
            cur = ast.dump(node)
            if k in env:
                return env[k] == cur
            env[k] = cur
            return True
        if pattern.id.startswith("__MV_"):
            if not isinstance(node, ast.Name):
                return False
            if pattern.id in env:
                return env[pattern.id] == node.id
            env[pattern.id] = node.id
            return True
    if type(pattern) is not type(node):
        return False
    for f in pattern._fields:
        if f in ("ctx", "lineno", "col_offset", "end_lineno", "end_col_offset", "kind", "type_comment"):
            continue
        a, b = getattr(pattern, f, None), getattr(node, f, None)
        if isinstance(a, list):
            if not isinstance(b, list) or len(a) != len(b):
                return False
            for x, y in zip(a, b):
                if isinstance(x, ast.AST):
                    if not ast_match(x, y, env):
                        return False
                elif x != y:
                    return False
        elif isinstance(a, ast.AST):
            if not isinstance(b, ast.AST) or not ast_match(a, b, env):
                return False
        elif a != b:
            return False
    return True


def ast_contains(root: ast.AST, pattern_src: str) -> bool:
    pat = _pat(pattern_src)
    for n in ast.walk(root):
        if ast_match(pat, n, {}):
            return True
    return False


def ctor_param_field(py, cls: str, param: str) -> Optional[str]:
    """Field in which __init__ (following super().__init__ positionally / by keyword) stores `param`."""
    r = py.resolve_method(cls, "__init__")
    if not r:
        return None
    ci, fn = r
    for st in ast.walk(fn):
        if isinstance(st, (ast.Assign, ast.AnnAssign)):
            tgt = st.targets[0] if isinstance(st, ast.Assign) else st.target
            val = st.value
            if is_self_attr(tgt) and isinstance(val, ast.Name) and val.id == param:
                return tgt.attr
    for st in ast.walk(fn):
        if isinstance(st, ast.Call) and isinstance(st.func, ast.Attribute) and st.func.attr == "__init__" and isinstance(st.func.value, ast.Call) and isinstance(st.func.value.func, ast.Name) and st.func.value.func.id == "super":
            for c2 in py.mro(ci.name)[1:]:
                if "__init__" in c2.methods:
                    ps = [x.arg for x in c2.methods["__init__"].args.args][1:]
                    for i, a in enumerate(st.args):
                        if isinstance(a, ast.Name) and a.id == param and i < len(ps):
                            return ctor_param_field(py, c2.name, ps[i])
                    for k in st.keywords:
                        if isinstance(k.value, ast.Name) and k.value.id == param and k.arg:
                            return ctor_param_field(py, c2.name, k.arg)
                    break
    return None


_ROLE_CACHE: Dict[Tuple[int, str, int], Optional[str]] = {}


def ctor_field(py, cls: str, idx: int, default: str) -> str:
    """Name of the field that keeps the idx-th positional constructor argument of `cls` (private attributes may be renamed
    freely: the rules ask for the role, not for the spelling)."""
    key = (id(py), cls, idx)
    if key not in _ROLE_CACHE:
        r = py.resolve_method(cls, "__init__")
        out = None
        if r:
            ps = [a.arg for a in r[1].args.args][1:]
            if idx < len(ps):
                out = ctor_param_field(py, cls, ps[idx])
        _ROLE_CACHE[key] = out
    return _ROLE_CACHE[key] or default


def resolve_alias(fn: ast.AST, e: ast.AST, depth: int = 0) -> ast.AST:
    """Follow a local name to the expression it is bound to, when the function binds it exactly once by a plain
    assignment (x = <expr>); other names (parameters, loop variables, re-bound names) are returned unchanged."""
    if depth > 3 or not isinstance(e, ast.Name):
        return e
    binds = []
    use_line = getattr(e, "lineno", 10**9)
    for n in ast.walk(fn):
        if getattr(n, "lineno", 0) > use_line and isinstance(n, (ast.For, ast.Assign, ast.AnnAssign, ast.AugAssign)) and not any(x is e for x in ast.walk(n)):
            continue  # bindings after the use do not reach it (straight-line reading; loops that contain the use are kept)
        if isinstance(n, ast.Assign) and len(n.targets) == 1 and isinstance(n.targets[0], ast.Name) and n.targets[0].id == e.id:
            binds.append(n.value)
        elif isinstance(n, ast.Assign) and len(n.targets) == 1 and isinstance(n.targets[0], ast.Tuple) and isinstance(n.value, ast.Tuple) and len(n.targets[0].elts) == len(n.value.elts) and any(isinstance(t_, ast.Name) and t_.id == e.id for t_ in n.targets[0].elts):
            # a, b = x, y
            for t_, v_ in zip(n.targets[0].elts, n.value.elts):
                if isinstance(t_, ast.Name) and t_.id == e.id:
                    binds.append(v_)
        elif isinstance(n, ast.AnnAssign) and isinstance(n.target, ast.Name) and n.target.id == e.id and n.value is not None:
            binds.append(n.value)
        elif isinstance(n, (ast.For, ast.comprehension)) and any(isinstance(t, ast.Name) and t.id == e.id for t in ast.walk(n.target)):
            return e
        elif isinstance(n, (ast.AugAssign,)) and isinstance(n.target, ast.Name) and n.target.id == e.id:
            return e
    if len(binds) != 1:
        return e
    return resolve_alias(fn, binds[0], depth + 1)
