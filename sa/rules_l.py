"""Runtime library / procedure bank rules L1..L7."""

from __future__ import annotations

import ast
import re
from typing import Dict, List, Optional, Set, Tuple

from .b09lib import LIB_REL, B09Lib, Proc, Stmt, b09lib, norm_type_decl
from .core import AnalysisError, Ctx, IdiomNotFound, rule
from .peg import RegexConst, fold_module, peg
from .pyast import pyfacts, unparse, walk_no_nested

PROCBANK_REL = "coco/b09/procbank.py"
COMPILER_REL = "coco/b09/compiler.py"

# OS-9 / BASIC09 system modules a RUN may name without the library defining them
SYSTEM_MODULES = {"gfx2", "gfx", "syscall", "inkey"}


def _compatible(actual: str, declared: str) -> bool:
    if actual == declared:
        return True
    if declared.startswith("rec:") or actual.startswith("rec:"):
        return False
    if declared == "num" and actual == "num":
        return True
    return False


# ---------------------------------------------------------------------------


@rule("L2", "LIB-CALLS: every `run` between library procedures passes the declared number and coarse type of arguments", ["C14"], floor=40)
def l2(ctx: Ctx):
    L = b09lib(ctx)
    for p in L.procs.values():
        for s in L.all_stmts(p):
            if s.kind != "run":
                continue
            if s.run_name.lower() in SYSTEM_MODULES:
                continue
            callee = L.procs.get(s.run_name)
            if callee is None:
                continue  # L4 reports it
            key = f"{p.name}->{s.run_name}@{_ordinal(L, p, s)}"
            if len(s.run_args) != len(callee.params):
                ctx.ob(key, False, f"`{s.text.strip()}` passes {len(s.run_args)} arguments, procedure {callee.name} declares {len(callee.params)} parameters", file=LIB_REL, line=s.line)
                continue
            bad = []
            for a, (pn, pt, raw) in zip(s.run_args, callee.params):
                at = L.arg_type(p, a)
                if at == "unknown":
                    raise AnalysisError("L2", key, f"cannot type argument `{a}` in `{s.text.strip()}`")
                if not _compatible(at, pt):
                    bad.append(f"`{a}` is {at}, parameter {pn} is {raw}")
            ctx.ob(key, not bad, "; ".join(bad), file=LIB_REL, line=s.line, facts={"args": s.run_args, "params": [x[0] + ":" + x[2] for x in callee.params]})


def _ordinal(L: B09Lib, p: Proc, s: Stmt) -> int:
    n = 0
    for x in L.all_stmts(p):
        if x.kind == "run" and x.run_name == s.run_name:
            n += 1
            if x is s:
                return n
    return n


# ---------------------------------------------------------------------------


def prologue_types(ctx: Ctx) -> Dict[str, Tuple[str, int]]:
    """`type X = ...` declarations the tool itself emits (string constants in compiler.py)."""
    py = pyfacts(ctx)
    m = py.mod(COMPILER_REL)
    out: Dict[str, Tuple[str, int]] = {}
    for n in ast.walk(m.tree):
        if isinstance(n, ast.Constant) and isinstance(n.value, str):
            mt = re.match(r"(?i)^\s*type\s+(\w+)\s*=", n.value)
            if mt:
                out[mt.group(1).lower()] = (norm_type_decl(n.value), n.lineno)
    return out


@rule("L3", "RECORD-TYPES: record declarations of the prologue and of every library procedure are identical", ["C14"], floor=20)
def l3(ctx: Ctx):
    L = b09lib(ctx)
    pro = prologue_types(ctx)
    ctx.need(len(pro) >= 2, "prologue", f"expected the display and play record declarations in convert(), found {sorted(pro)}")
    # which record types are shared between tool and library: those the prologue declares
    for tname, (decl, line) in sorted(pro.items()):
        users = [p for p in L.procs.values() if tname in p.types]
        ctx.need(users, tname, "record type declared by the prologue is used by no library procedure")
        for p in users:
            ok = p.types[tname] == decl
            ctx.ob(
                f"{tname}@{p.name}",
                ok,
                "" if ok else f"`type {tname}` in procedure {p.name} differs from the declaration the tool emits in its prologue (compiler.py:{line}): the record is laid out differently on the two sides of the RUN",
                file=LIB_REL,
                line=p.line,
                facts={"library": p.types[tname], "prologue": decl} if not ok else None,
            )
    # every procedure that takes a record parameter declares the type itself
    for p in L.procs.values():
        for pn, pt, raw in p.params:
            if pt.startswith("rec:"):
                t = pt[4:]
                ok = t in p.types
                ctx.ob(f"{p.name}.{pn}:{t}", ok, "" if ok else f"parameter {pn} of {p.name} has type {raw} which the procedure does not declare", file=LIB_REL, line=p.line)


# ---------------------------------------------------------------------------


def bank_patterns(ctx: Ctx) -> Dict[str, RegexConst]:
    env = fold_module(ctx, PROCBANK_REL)
    out = {}
    for k in ("PROCEDURE_START_PREFIX", "INVOKED_PROCEDURE_NAMES", "STR_STORAGE_TAG"):
        v = env.get(k)
        if not isinstance(v, RegexConst):
            raise AnalysisError("L4", k, f"pattern is not a foldable re.compile(...) constant in procbank.py: {v}")
        out[k] = v
    return out


@rule("L4", "LIB-CLOSED: every `run X` in the library names a library procedure or an OS-9 system module, and the bank's own pattern sees the same calls", ["C13", "C14"], floor=55)
def l4(ctx: Ctx):
    L = b09lib(ctx)
    pats = bank_patterns(ctx)
    invoked = re.compile(pats["INVOKED_PROCEDURE_NAMES"].pattern, pats["INVOKED_PROCEDURE_NAMES"].flags)
    header = re.compile(pats["PROCEDURE_START_PREFIX"].pattern, pats["PROCEDURE_START_PREFIX"].flags)
    for p in L.procs.values():
        mine: Dict[int, List[str]] = {}
        for s in L.all_stmts(p):
            if s.kind == "run":
                mine.setdefault(s.line, []).append(s.run_name)
                if s.run_name.lower() in SYSTEM_MODULES:
                    continue
                ok = s.run_name in L.procs
                near = [n for n in L.procs if n.lower() == s.run_name.lower()]
                ctx.ob(
                    f"{p.name}->{s.run_name}",
                    ok,
                    "" if ok else f"`{s.text.strip()}` names no procedure of ecb.b09" + (f" (the bank is case-sensitive; did you mean {near[0]}?)" if near else "") + ": the bundle would contain a RUN of a missing procedure",
                    file=LIB_REL,
                    line=s.line,
                )
        # the bank's regex must see exactly these calls, line by line
        theirs: Dict[int, List[str]] = {}
        for ln, raw in p.lines:
            f = invoked.findall(raw)
            if f:
                theirs[ln] = [x if isinstance(x, str) else x[0] for x in f]
        diff = {ln for ln in set(mine) | set(theirs) if sorted(mine.get(ln, [])) != sorted(theirs.get(ln, []))}
        # calls inside comments are seen by the bank only: harmless over-approximation, reported as information
        real = set()
        for ln in diff:
            raw = dict(p.lines)[ln]
            if raw.strip().startswith("(*"):
                continue
            real.add(ln)
        ctx.ob(
            f"{p.name}:bank-sees-calls",
            not real,
            "" if not real else f"on lines {sorted(real)} the bank's INVOKED_PROCEDURE_NAMES pattern finds {[theirs.get(l) for l in sorted(real)]} but the statements call {[mine.get(l) for l in sorted(real)]}: dependencies would be missed or invented",
            file=LIB_REL,
            line=p.line,
        )
        # header round trip
        hdr = dict((ln, raw) for ln, raw in [(p.line, None)])
    # every procedure header of the library is recognised by the bank's header pattern
    for i, raw in enumerate(re.split(r"[\r\n]", L.text), start=1):
        if re.match(r"(?i)^\s*procedure\b", raw):
            m = header.match(raw)
            ok = m is not None and m.group(1) in L.procs
            ctx.ob(f"header:{raw.strip()}", ok, "" if ok else "procedure header not recognised by PROCEDURE_START_PREFIX: the procedure would be glued to the previous one", file=LIB_REL, line=i)


# ---------------------------------------------------------------------------
# L7 RESULT-ASSIGNED


class _Block:
    def __init__(self, kind: str, head: Optional[Stmt]):
        self.kind = kind
        self.head = head
        self.body: List[object] = []
        self.orelse: Optional[List[object]] = None


def build_blocks(L: B09Lib, p: Proc) -> List[object]:
    """Nest the flat statement list into IF/FOR/WHILE/LOOP/EXITIF blocks."""
    root: List[object] = []
    stack: List[Tuple[_Block, List[object]]] = []
    cur = root
    flat: List[Stmt] = []
    for s in p.stmts:
        flat.append(s)
    openers = {"if": "endif", "for": "next", "while": "endwhile", "loop": "endloop", "exitif": "endexit", "repeat": "until"}

    def push(b: _Block):
        nonlocal cur
        cur.append(b)
        stack.append((b, cur))
        cur = b.body

    for s in flat:
        k = s.kind
        if k in openers:
            b = _Block(k, s)
            push(b)
            x = s.inline
            if x is not None:
                cur.append(x)
        elif k == "else":
            if not stack or stack[-1][0].kind != "if":
                raise AnalysisError("L7", f"{p.name}:{s.line}", "ELSE without IF")
            b = stack[-1][0]
            b.orelse = []
            cur = b.orelse
        elif k in openers.values():
            if not stack or openers[stack[-1][0].kind] != k:
                raise AnalysisError("L7", f"{p.name}:{s.line}", f"unbalanced {k.upper()}")
            b, parent = stack.pop()
            cur = parent
        else:
            cur.append(s)
    if stack:
        raise AnalysisError("L7", p.name, f"unclosed {stack[-1][0].kind.upper()} block")
    return root


def definitely_assigns(L: B09Lib, p: Proc, items: List[object], var: str) -> bool:
    for it in items:
        if isinstance(it, Stmt):
            if it.kind in ("assign", "read") and it.target == var:
                return True
            if it.kind == "run" and any(re.fullmatch(rf"(?i)\s*{re.escape(var)}\s*", a) for a in it.run_args):
                return True  # passed by reference to a procedure that fills it
            if it.kind == "error":
                return True  # path does not reach the normal exit
        else:
            b: _Block = it
            if b.kind == "if":
                if b.orelse is not None and definitely_assigns(L, p, b.body, var) and definitely_assigns(L, p, b.orelse, var):
                    return True
            elif b.kind in ("loop", "repeat"):
                pass  # bodies of loops are not relied upon
    return False


def functional_procedures(ctx: Ctx) -> Dict[str, str]:
    """Library procedures that stand in for a function (last parameter is the result): name -> where from."""
    out: Dict[str, str] = {}
    p = peg(ctx)
    for tname, tbl in p.env.items():
        if isinstance(tbl, dict) and tname.endswith("TO_STATEMENTS") or tname in ("STR_NUM_FUNCTIONS", "FUNCTIONS_TO_STATEMENTS2"):
            if isinstance(tbl, dict):
                for k, v in tbl.items():
                    if isinstance(v, str) and v.lower().startswith("run "):
                        out[v.split()[1]] = f"grammar.{tname}[{k}]"
    py = pyfacts(ctx)
    for rel in ("coco/b09/parser.py", "coco/b09/visitors.py", "coco/b09/elements.py"):
        m = py.mod(rel)
        for n in ast.walk(m.tree):
            if isinstance(n, ast.Call) and isinstance(n.func, ast.Name) and n.func.id in ("BasicFunctionalExpression",) and n.args:
                a = n.args[0]
                if isinstance(a, ast.Name) and isinstance(m.assigns.get(a.id), ast.Constant):
                    a = m.assigns[a.id]  # a module-level named constant
                if isinstance(a, ast.Constant) and isinstance(a.value, str) and a.value.lower().startswith("run "):
                    out[a.value.split()[1]] = f"{rel}:{n.lineno}"
            if isinstance(n, ast.Call) and isinstance(n.func, ast.Attribute) and n.func.attr == "__init__" and n.args:
                a = n.args[0]
                if isinstance(a, ast.Constant) and isinstance(a.value, str) and a.value.lower().startswith("run ecb_"):
                    out[a.value.split()[1]] = f"{rel}:{n.lineno}"
    # the empty-DATA filter is called as a statement but has the same shape (C20)
    out.setdefault("ecb_read_filter", "visitors.BasicReadStatementPatcherVisitor")
    return out


# result not definitely assigned by construction, accepted with a reason
L7_EXCEPTIONS = {
    "ecb_button": "two complementary one-line IFs on land(button,1)=0 / =1; path-insensitive analysis cannot join them",
    "ecb_joystk": "four one-line IFs selecting the axis 0..3; other selector values are outside the function's domain",
    "ecb_val": "assigned before ON ERROR GOTO; analysis treats the label line as opaque",
}


@rule("L7", "RESULT-ASSIGNED: a procedure standing in for a function assigns its result parameter on every normal path", ["C20", "C03"], floor=4)
def l7(ctx: Ctx):
    L = b09lib(ctx)
    funcs = functional_procedures(ctx)
    for name, src in sorted(funcs.items()):
        if name.lower() in SYSTEM_MODULES:
            continue
        if name not in L.procs:
            continue  # L1/L4 report unknown names
        p = L.procs[name]
        ctx.need(p.params, name, "functional procedure without parameters")
        res = p.params[-1][0]
        blocks = build_blocks(L, p)
        ok = definitely_assigns(L, p, blocks, res)
        if not ok and name in L7_EXCEPTIONS:
            ctx.info(f"{name}.{res}", "exception: " + L7_EXCEPTIONS[name], file=LIB_REL, line=p.line)
            continue
        if name not in ("ecb_instr", "ecb_string", "ecb_read_filter"):
            ctx.info(f"{name}.{res}", ("assigned on every normal path" if ok else "NOT assigned on every normal path") + " (not one of the three helpers the property names)", file=LIB_REL, line=p.line)
            continue
        ctx.ob(
            f"{name}.{res}",
            ok,
            "" if ok else f"procedure {name} (stands in for a function, used at {src}) does not assign its result parameter `{res}` on every path to its normal exit (loops may run zero times / an IF has no ELSE): the caller's temporary keeps its previous value",
            file=LIB_REL,
            line=p.line,
        )
    # C20: the empty branch of the read filter yields the constant 0
    p = L.proc("ecb_read_filter")
    blocks = build_blocks(L, p)
    found = False
    for b in blocks:
        if isinstance(b, _Block) and b.kind == "if" and b.head is not None:
            cond = re.sub(r"\s+", "", b.head.text.lower())
            inval = p.params[0][0]
            if cond.startswith(f'if{inval}=""then'):
                found = True
                res = p.params[-1][0]
                vals = [re.sub(r"\s+", "", s.text.lower()) for s in b.body if isinstance(s, Stmt) and s.kind == "assign" and s.target == res]
                zero = bool(vals) and all(re.fullmatch(rf"{re.escape(res)}:?=0(\.0*)?", v) for v in vals)
                other = [s for s in (b.orelse or []) if isinstance(s, Stmt) and s.kind == "assign" and s.target == res]
                uses_val = bool(other) and all(re.search(rf"(?i)\bval\(\s*{re.escape(inval)}\s*\)", s.text) for s in other)
                ctx.ob("ecb_read_filter.empty->0", zero, "" if zero else "the branch taken for an empty DATA item does not assign the constant 0", file=LIB_REL, line=b.head.line, props=["C20", "C03"])
                ctx.ob("ecb_read_filter.else->val", uses_val, "" if uses_val else "the branch for a non-empty item does not assign VAL(item)", file=LIB_REL, line=b.head.line, props=["C20", "C03"])
    ctx.need(found, "ecb_read_filter", 'two-armed IF on `<input> = ""` not found')
