"""Runtime library / procedure bank rules L1..L7."""

from __future__ import annotations

import ast
import re
from typing import Dict, List, Optional, Set, Tuple

from .b09lib import LIB_REL, B09Lib, Proc, Stmt, b09lib, norm_type_decl
from .core import AnalysisError, Ctx, IdiomNotFound, rule
from .peg import RegexConst, fold_module, peg
from .pyast import pyfacts, unparse, walk_no_nested

PROCBANK_REL = "coco/b09/procbank.py"
COMPILER_REL = "coco/b09/compiler.py"

# OS-9 / BASIC09 system modules a RUN may name without the library defining them
SYSTEM_MODULES = {"gfx2", "gfx", "syscall", "inkey"}


def _compatible(actual: str, declared: str) -> bool:
    if actual == declared:
        return True
    if declared.startswith("rec:") or actual.startswith("rec:"):
        return False
    if declared == "num" and actual == "num":
        return True
    return False


# ---------------------------------------------------------------------------


@rule("L2", "LIB-CALLS: every `run` between library procedures passes the declared number and coarse type of arguments", ["C14"], floor=40)
def l2(ctx: Ctx):
    L = b09lib(ctx)
    for p in L.procs.values():
        for s in L.all_stmts(p):
            if s.kind != "run":
                continue
            if s.run_name.lower() in SYSTEM_MODULES:
                continue
            callee = L.procs.get(s.run_name)
            if callee is None:
                continue  # L4 reports it
            key = f"{p.name}->{s.run_name}@{_ordinal(L, p, s)}"
            if len(s.run_args) != len(callee.params):
                ctx.ob(key, False, f"`{s.text.strip()}` passes {len(s.run_args)} arguments, procedure {callee.name} declares {len(callee.params)} parameters", file=LIB_REL, line=s.line)
                continue
            bad = []
            for a, (pn, pt, raw) in zip(s.run_args, callee.params):
                at = L.arg_type(p, a)
                if at == "unknown":
                    raise AnalysisError("L2", key, f"cannot type argument `{a}` in `{s.text.strip()}`")
                if not _compatible(at, pt):
                    bad.append(f"`{a}` is {at}, parameter {pn} is {raw}")
            ctx.ob(key, not bad, "; ".join(bad), file=LIB_REL, line=s.line, facts={"args": s.run_args, "params": [x[0] + ":" + x[2] for x in callee.params]})


def _ordinal(L: B09Lib, p: Proc, s: Stmt) -> int:
    n = 0
    for x in L.all_stmts(p):
        if x.kind == "run" and x.run_name == s.run_name:
            n += 1
            if x is s:
                return n
    return n


# ---------------------------------------------------------------------------


def prologue_types(ctx: Ctx) -> Dict[str, Tuple[str, int]]:
    """`type X = ...` declarations the tool itself emits (string constants in compiler.py)."""
    py = pyfacts(ctx)
    m = py.mod(COMPILER_REL)
    out: Dict[str, Tuple[str, int]] = {}
    for n in ast.walk(m.tree):
        if isinstance(n, ast.Constant) and isinstance(n.value, str):
            mt = re.match(r"(?i)^\s*type\s+(\w+)\s*=", n.value)
            if mt:
                out[mt.group(1).lower()] = (norm_type_decl(n.value), n.lineno)
    return out


@rule("L3", "RECORD-TYPES: record declarations of the prologue and of every library procedure are identical", ["C14", "C04"], floor=20)
def l3(ctx: Ctx):
    L = b09lib(ctx)
    pro = prologue_types(ctx)
    ctx.need(len(pro) >= 2, "prologue", f"expected the display and play record declarations in convert(), found {sorted(pro)}")
    # which record types are shared between tool and library: those the prologue declares
    for tname, (decl, line) in sorted(pro.items()):
        users = [p for p in L.procs.values() if tname in p.types]
        ctx.need(users, tname, "record type declared by the prologue is used by no library procedure")
        for p in users:
            ok = p.types[tname] == decl
            ctx.ob(
                f"{tname}@{p.name}",
                ok,
                "" if ok else f"`type {tname}` in procedure {p.name} differs from the declaration the tool emits in its prologue (compiler.py:{line}): the record is laid out differently on the two sides of the RUN",
                file=LIB_REL,
                line=p.line,
                facts={"library": p.types[tname], "prologue": decl} if not ok else None,
            )
    # every procedure that takes a record parameter declares the type itself
    for p in L.procs.values():
        for pn, pt, raw in p.params:
            if pt.startswith("rec:"):
                t = pt[4:]
                ok = t in p.types
                ctx.ob(f"{p.name}.{pn}:{t}", ok, "" if ok else f"parameter {pn} of {p.name} has type {raw} which the procedure does not declare", file=LIB_REL, line=p.line)


# ---------------------------------------------------------------------------


def bank_patterns(ctx: Ctx) -> Dict[str, RegexConst]:
    env = fold_module(ctx, PROCBANK_REL)
    out = {}
    for k in ("PROCEDURE_START_PREFIX", "INVOKED_PROCEDURE_NAMES", "STR_STORAGE_TAG"):
        v = env.get(k)
        if not isinstance(v, RegexConst):
            raise AnalysisError("L4", k, f"pattern is not a foldable re.compile(...) constant in procbank.py: {v}")
        out[k] = v
    return out


@rule("L4", "LIB-CLOSED: every `run X` in the library names a library procedure or an OS-9 system module, and the bank's own pattern sees the same calls", ["C13", "C14"], floor=55)
def l4(ctx: Ctx):
    L = b09lib(ctx)
    pats = bank_patterns(ctx)
    invoked = re.compile(pats["INVOKED_PROCEDURE_NAMES"].pattern, pats["INVOKED_PROCEDURE_NAMES"].flags)
    header = re.compile(pats["PROCEDURE_START_PREFIX"].pattern, pats["PROCEDURE_START_PREFIX"].flags)
    from .rules_bank import bank_cuts_comments, cut_comment

    cuts_comments = bank_cuts_comments(ctx) is True
    # one definition per name: of two procedures with one name the bank keeps the one it read last, the callers of the
    # other are left with a procedure of another interface
    ctx.ob(
        "one-definition-per-name",
        not L.duplicates,
        "" if not L.duplicates else f"procedure `{L.duplicates[0][0]}` is defined twice in ecb.b09 (lines {L.duplicates[0][1]} and {L.duplicates[0][2]}): the bundle carries only the second, every RUN written for the first now names a procedure with other parameters",
        file=LIB_REL,
        line=L.duplicates[0][2] if L.duplicates else 1,
        props=["C13", "C14"],
    )
    for p in L.procs.values():
        mine: Dict[int, List[str]] = {}
        for s in L.all_stmts(p):
            if s.kind == "run":
                mine.setdefault(s.line, []).append(s.run_name)
                if s.run_name.lower() in SYSTEM_MODULES:
                    continue
                ok = s.run_name in L.procs
                near = [n for n in L.procs if n.lower() == s.run_name.lower()]
                ctx.ob(
                    f"{p.name}->{s.run_name}",
                    ok,
                    "" if ok else f"`{s.text.strip()}` names no procedure of ecb.b09" + (f" (the bank is case-sensitive; did you mean {near[0]}?)" if near else "") + ": the bundle would contain a RUN of a missing procedure",
                    file=LIB_REL,
                    line=s.line,
                )
        # the bank's regex must see exactly these calls, line by line
        theirs: Dict[int, List[str]] = {}
        for ln, raw in p.lines:
            f = invoked.findall(cut_comment(raw) if cuts_comments else raw)
            if f:
                theirs[ln] = [x if isinstance(x, str) else x[0] for x in f]
        diff = {ln for ln in set(mine) | set(theirs) if sorted(mine.get(ln, [])) != sorted(theirs.get(ln, []))}
        # (a `run x` in the prose of a comment is seen by the bank only: the bundle then carries a procedure that no
        # statement calls - the property asks for exactly the reachable ones)
        real = set(diff)
        ctx.ob(
            f"{p.name}:bank-sees-calls",
            not real,
            "" if not real else f"on lines {sorted(real)} the bank's INVOKED_PROCEDURE_NAMES pattern finds {[theirs.get(l) for l in sorted(real)]} but the statements call {[mine.get(l) for l in sorted(real)]}: dependencies would be missed or invented",
            file=LIB_REL,
            line=p.line,
        )
        # header round trip
        hdr = dict((ln, raw) for ln, raw in [(p.line, None)])
    # every procedure header of the library is recognised by the bank's header pattern
    for i, raw in enumerate(re.split(r"[\r\n]", L.text), start=1):
        if re.match(r"(?i)^\s*procedure\b", raw):
            m = header.match(raw)
            ok = m is not None and m.group(1) in L.procs
            ctx.ob(f"header:{raw.strip()}", ok, "" if ok else "procedure header not recognised by PROCEDURE_START_PREFIX: the procedure would be glued to the previous one", file=LIB_REL, line=i)


# ---------------------------------------------------------------------------
# L7 RESULT-ASSIGNED


class _Block:
    def __init__(self, kind: str, head: Optional[Stmt]):
        self.kind = kind
        self.head = head
        self.body: List[object] = []
        self.orelse: Optional[List[object]] = None


def build_blocks(L: B09Lib, p: Proc) -> List[object]:
    """Nest the flat statement list into IF/FOR/WHILE/LOOP/EXITIF blocks."""
    root: List[object] = []
    stack: List[Tuple[_Block, List[object]]] = []
    cur = root
    flat: List[Stmt] = []
    for s in p.stmts:
        flat.append(s)
    openers = {"if": "endif", "for": "next", "while": "endwhile", "loop": "endloop", "exitif": "endexit", "repeat": "until"}

    def push(b: _Block):
        nonlocal cur
        cur.append(b)
        stack.append((b, cur))
        cur = b.body

    for s in flat:
        k = s.kind
        if k in openers:
            b = _Block(k, s)
            push(b)
            x = s.inline
            if x is not None:
                cur.append(x)
        elif k == "else":
            if not stack or stack[-1][0].kind != "if":
                raise AnalysisError("L7", f"{p.name}:{s.line}", "ELSE without IF")
            b = stack[-1][0]
            b.orelse = []
            cur = b.orelse
        elif k in openers.values():
            if not stack or openers[stack[-1][0].kind] != k:
                raise AnalysisError("L7", f"{p.name}:{s.line}", f"unbalanced {k.upper()}")
            if k == "next":
                # NEXT names the variable of the FOR it closes
                mf_ = re.match(r"(?i)\s*for\s+([a-z_][a-z0-9_]*)", stack[-1][0].head.text if stack[-1][0].head is not None else "")
                mn_ = re.match(r"(?i)\s*next\s+([a-z_][a-z0-9_]*)", s.text)
                if mf_ and mn_ and mf_.group(1).lower() != mn_.group(1).lower():
                    raise AnalysisError("L7", f"{p.name}:{s.line}", f"`{s.text.strip()}` closes `{stack[-1][0].head.text.strip()}`: the NEXT names another variable than its FOR")
            b, parent = stack.pop()
            cur = parent
        else:
            cur.append(s)
    if stack:
        raise AnalysisError("L7", p.name, f"unclosed {stack[-1][0].kind.upper()} block")
    return root


class _Unmodelled(Exception):
    pass


def definitely_assigns(L: B09Lib, p: Proc, items: List[object], var: str) -> bool:
    """Must-assignment of `var` at every normal exit (END / RETURN / falling off the end).

    Straight-line statements, IF/ELSE, loops (bodies may run zero times; an exit inside a body is judged with the state at loop
    entry), `ERROR n` (abnormal exit: no obligation) and `ON ERROR GOTO <label>` with a label at the top level of the procedure
    (from the statement on, control may arrive at the label with no more than what was assigned when the trap was installed)."""
    exits_ok = [True]
    traps: Dict[str, bool] = {}
    UNREACH = None  # state of a path that cannot continue

    def assigns(st: Stmt) -> bool:
        if st.kind in ("assign", "read") and st.target == var:
            return True
        if st.kind == "run" and any(re.fullmatch(rf"(?i)\s*{re.escape(var)}\s*", a) for a in st.run_args):
            return True  # passed by reference to a procedure that fills it
        return False

    def join(a, b):
        if a is UNREACH:
            return b
        if b is UNREACH:
            return a
        return a and b

    def run(its: List[object], state, top: bool):
        for it in its:
            if isinstance(it, Stmt):
                if it.label and it.label in traps:
                    if not top:
                        raise _Unmodelled(f"error-trap label {it.label} inside a block")
                    state = traps[it.label] if state is UNREACH else (state and traps[it.label])
                if state is UNREACH:
                    continue
                low = it.text.lower().split()
                if low[:3] == ["on", "error", "goto"] and len(low) >= 4:
                    traps[low[3]] = state if low[3] not in traps else (traps[low[3]] and state)
                    continue
                if low[:1] in (["goto"], ["gosub"]) or (low[:1] == ["on"] and low[:2] != ["on", "error"]):
                    raise _Unmodelled(f"jump `{it.text.strip()}`")
                if it.kind == "error":
                    state = UNREACH
                    continue
                if it.kind == "end":
                    if not state:
                        exits_ok[0] = False
                    state = UNREACH
                    continue
                if assigns(it):
                    state = True
            else:
                b: _Block = it
                if state is UNREACH:
                    continue
                if b.kind == "if":
                    s1 = run(b.body, state, False)
                    s2 = run(b.orelse, state, False) if b.orelse is not None else state
                    state = join(s1, s2)
                elif b.kind == "repeat":
                    state = run(b.body, state, False)
                else:
                    run(b.body, state, False)  # for / while / loop / exitif bodies: exits inside are judged, assignments not relied upon
        return state

    final = run(items, False, True)
    for lab in traps:
        if not any(isinstance(it, Stmt) and it.label == lab for it in items):
            raise _Unmodelled(f"error-trap label {lab} is not at the top level of the procedure")
    if final is not UNREACH and not final:
        exits_ok[0] = False
    return exits_ok[0]


def functional_procedures(ctx: Ctx) -> Dict[str, str]:
    """Library procedures that stand in for a function (last parameter is the result): name -> where from."""
    out: Dict[str, str] = {}
    p = peg(ctx)
    for tname, tbl in p.env.items():
        if isinstance(tbl, dict) and tname.endswith("TO_STATEMENTS") or tname in ("STR_NUM_FUNCTIONS", "FUNCTIONS_TO_STATEMENTS2"):
            if isinstance(tbl, dict):
                for k, v in tbl.items():
                    if isinstance(v, str) and v.lower().startswith("run "):
                        out[v.split()[1]] = f"grammar.{tname}[{k}]"
    py = pyfacts(ctx)
    for rel in ("coco/b09/parser.py", "coco/b09/visitors.py", "coco/b09/elements.py"):
        m = py.mod(rel)
        for n in ast.walk(m.tree):
            if isinstance(n, ast.Call) and isinstance(n.func, ast.Name) and n.func.id in ("BasicFunctionalExpression",) and n.args:
                a = n.args[0]
                if isinstance(a, ast.Name) and isinstance(m.assigns.get(a.id), ast.Constant):
                    a = m.assigns[a.id]  # a module-level named constant
                if isinstance(a, ast.Constant) and isinstance(a.value, str) and a.value.lower().startswith("run "):
                    out[a.value.split()[1]] = f"{rel}:{n.lineno}"
            if isinstance(n, ast.Call) and isinstance(n.func, ast.Attribute) and n.func.attr == "__init__" and n.args:
                a = n.args[0]
                if isinstance(a, ast.Constant) and isinstance(a.value, str) and a.value.lower().startswith("run ecb_"):
                    out[a.value.split()[1]] = f"{rel}:{n.lineno}"
    # the empty-DATA filter is called as a statement but has the same shape (C20)
    out.setdefault("ecb_read_filter", "visitors.BasicReadStatementPatcherVisitor")
    return out


# result not definitely assigned by construction, accepted with a reason
L7_EXCEPTIONS = {
    "ecb_joystk": "four one-line IFs selecting the axis 0..3; other selector values are outside the function's domain",
}


@rule("L7", "RESULT-ASSIGNED: a procedure standing in for a function assigns its result parameter on every path to a normal exit, error traps included", ["C20", "C03", "C01"], floor=4, default_props=["C20", "C03"])
def l7(ctx: Ctx):
    L = b09lib(ctx)
    funcs = functional_procedures(ctx)
    for name, src in sorted(funcs.items()):
        if name.lower() in SYSTEM_MODULES:
            continue
        if name not in L.procs:
            continue  # L1/L4 report unknown names
        p = L.procs[name]
        ctx.need(p.params, name, "functional procedure without parameters")
        res = p.params[-1][0]
        blocks = build_blocks(L, p)
        try:
            ok = definitely_assigns(L, p, blocks, res)
        except _Unmodelled as e_:
            if name in ("ecb_instr", "ecb_string", "ecb_read_filter"):
                raise AnalysisError("L7", f"{name}.{res}", f"control flow this rule does not model: {e_}")
            ctx.undecided(f"{name}.{res}", f"control flow this rule does not model: {e_}", file=LIB_REL, line=p.line)
            continue
        if not ok and name in L7_EXCEPTIONS:
            ctx.info(f"{name}.{res}", "exception: " + L7_EXCEPTIONS[name], file=LIB_REL, line=p.line)
            continue
        # the three helpers C20 names; VAL / STR$ are named by C03; every other one is a built-in function of the expression fragment (C01)
        props_ = ["C20", "C03", "C01"] if name in ("ecb_instr", "ecb_string") else ["C20", "C03"] if name == "ecb_read_filter" else ["C03", "C01"] if name in ("ecb_val", "ecb_str") else ["C01"]
        ctx.ob(
            f"{name}.{res}",
            ok,
            "" if ok else f"procedure {name} (stands in for a function, used at {src}) does not assign its result parameter `{res}` on every path to a normal exit (an END before the first assignment, a loop that may run zero times, an IF without ELSE, or an error trap installed before the result has a value): the caller's variable keeps its previous value",
            file=LIB_REL,
            line=p.line,
            props=props_,
        )
    # C20: the empty branch of the read filter yields the constant 0
    p = L.proc("ecb_read_filter")
    blocks = build_blocks(L, p)
    found = False
    for b in blocks:
        if isinstance(b, _Block) and b.kind == "if" and b.head is not None:
            cond = re.sub(r"\s+", "", b.head.text.lower())
            inval = p.params[0][0]
            if cond.startswith(f'if{inval}=""then'):
                found = True
                res = p.params[-1][0]
                vals = [re.sub(r"\s+", "", s.text.lower()) for s in b.body if isinstance(s, Stmt) and s.kind == "assign" and s.target == res]
                zero = bool(vals) and all(re.fullmatch(rf"{re.escape(res)}:?=0(\.0*)?", v) for v in vals)
                other = [s for s in (b.orelse or []) if isinstance(s, Stmt) and s.kind == "assign" and s.target == res]
                uses_val = bool(other) and all(re.search(rf"(?i)\bval\(\s*{re.escape(inval)}\s*\)", s.text) for s in other)
                ctx.ob("ecb_read_filter.empty->0", zero, "" if zero else "the branch taken for an empty DATA item does not assign the constant 0", file=LIB_REL, line=b.head.line, props=["C20", "C03"])
                ctx.ob("ecb_read_filter.else->val", uses_val, "" if uses_val else "the branch for a non-empty item does not assign VAL(item)", file=LIB_REL, line=b.head.line, props=["C20", "C03"])
    if not found:
        # the test is spelled differently: decided on values - the branch that the empty item takes is taken by the empty
        # item only (every DATA text the tool can emit for a number goes to the other one) and assigns 0
        inval, res = p.params[0][0], p.params[-1][0]
        top = next((b for b in blocks if isinstance(b, _Block) and b.kind == "if" and b.head is not None and b.orelse is not None), None)
        ctx.need(top is not None, "ecb_read_filter", "no two-armed IF found")
        cond_ = _b09_text_cond(top.head.text)
        ctx.need(cond_ is not None, "ecb_read_filter", f"condition `{top.head.text.strip()}` not understood")
        samples = ["5.0", "-2.5", "0.5", "31", "0.0", "-0.75", "1e+20", "100.0"]
        try:
            at_empty = _text_cond_eval(cond_, {inval: ""})
            taken = [x for x in samples if _text_cond_eval(cond_, {inval: x}) == at_empty]
        except ValueError as ex:
            raise AnalysisError("L7", "ecb_read_filter", f"condition `{top.head.text.strip()}` not evaluable: {ex}")
        empty_branch, other_branch = (top.body, top.orelse) if at_empty else (top.orelse, top.body)
        vals = [re.sub(r"\s+", "", s.text.lower()) for s in empty_branch if isinstance(s, Stmt) and s.kind == "assign" and s.target == res]
        zero = bool(vals) and all(re.fullmatch(rf"{re.escape(res)}:?=0(\.0*)?", v) for v in vals)
        other = [s for s in other_branch if isinstance(s, Stmt) and s.kind == "assign" and s.target == res]
        uses_val = bool(other) and all(re.search(rf"(?i)\bval\(\s*{re.escape(inval)}\s*\)", s.text) for s in other)
        ctx.ob("ecb_read_filter.empty->0", zero, "" if zero else "the branch taken for an empty DATA item does not assign the constant 0", file=LIB_REL, line=top.head.line, props=["C20", "C03"])
        ctx.ob("ecb_read_filter.else->val", uses_val and not taken, "" if uses_val and not taken else (f"`{top.head.text.strip()}` sends the DATA item \"{taken[0]}\" down the branch of the empty item: READ stores 0 instead of {taken[0]}" if taken else "the branch for a non-empty item does not assign VAL(item)"), file=LIB_REL, line=top.head.line, props=["C20", "C03"], witness="" if not taken else f"10 READ A,B / 20 DATA ,{taken[0]}")


def _b09_text_cond(text: str):
    """The condition of `IF c THEN` over strings and numbers as a Python expression tree (string literals kept)."""
    import ast as _ast

    m = re.match(r"(?is)^\s*if\s+(.*?)\s+then\b.*$", text)
    if not m:
        return None
    src = m.group(1)
    parts = re.split(r'("[^"]*")', src)
    out = []
    for i, part in enumerate(parts):
        if i % 2 == 1:
            out.append(repr(part[1:-1]))
            continue
        t = part.lower().replace("<>", "!=").replace("><", "!=")
        t = re.sub(r"(?<![<>!=])=(?![=])", "==", t)
        t = re.sub(r"([a-z_][a-z0-9_]*)\$\s*\(", r"\1_S(", t)
        t = re.sub(r"([a-z_][a-z0-9_]*)\$", r"\1_S", t)
        out.append(t)
    try:
        return _ast.parse("".join(out), mode="eval").body
    except SyntaxError:
        return None


def _text_cond_eval(e, env):
    """Value of a condition built by _b09_text_cond (the checker's own evaluator: comparisons, AND/OR/NOT, LEFT$/RIGHT$/MID$/LEN)."""
    import ast as _ast

    if isinstance(e, _ast.Constant):
        return e.value
    if isinstance(e, _ast.Name):
        k = e.id[:-2] + "$" if e.id.endswith("_S") else e.id
        if k in env:
            return env[k]
        if e.id in env:
            return env[e.id]
        raise ValueError(f"unknown name {e.id}")
    if isinstance(e, _ast.BoolOp):
        vs = [bool(_text_cond_eval(v, env)) for v in e.values]
        return all(vs) if isinstance(e.op, _ast.And) else any(vs)
    if isinstance(e, _ast.UnaryOp) and isinstance(e.op, _ast.Not):
        return not _text_cond_eval(e.operand, env)
    if isinstance(e, _ast.UnaryOp) and isinstance(e.op, _ast.USub):
        return -_text_cond_eval(e.operand, env)
    if isinstance(e, _ast.Compare) and len(e.ops) == 1:
        a, b = _text_cond_eval(e.left, env), _text_cond_eval(e.comparators[0], env)
        if type(a) is not type(b) and not (isinstance(a, (int, float)) and isinstance(b, (int, float))):
            raise ValueError("comparison of text with number")
        op = type(e.ops[0])
        return {_ast.Eq: a == b, _ast.NotEq: a != b, _ast.Lt: a < b, _ast.LtE: a <= b, _ast.Gt: a > b, _ast.GtE: a >= b}[op]
    if isinstance(e, _ast.Call) and isinstance(e.func, _ast.Name):
        args = [_text_cond_eval(a, env) for a in e.args]
        f = e.func.id
        if f == "left_S" and len(args) == 2:
            return args[0][: int(args[1])]
        if f == "right_S" and len(args) == 2:
            return args[0][len(args[0]) - int(args[1]) :] if int(args[1]) else ""
        if f == "mid_S" and len(args) == 3:
            return args[0][int(args[1]) - 1 : int(args[1]) - 1 + int(args[2])]
        if f == "len" and len(args) == 1:
            return len(args[0])
        raise ValueError(f"function {f}")
    if isinstance(e, _ast.BinOp) and isinstance(e.op, (_ast.Add, _ast.Sub)):
        a, b = _text_cond_eval(e.left, env), _text_cond_eval(e.right, env)
        return a + b if isinstance(e.op, _ast.Add) else a - b
    raise ValueError(f"expression {type(e).__name__}")


# ---------------------------------------------------------------------------
# L10 ALIAS-SAFE


def _idents(text: str) -> List[str]:
    """Identifiers of a BASIC09 expression / statement text, outside string literals, lower-cased (record fields cut to the base)."""
    t = re.sub(r'"[^"]*"', '""', text)
    return [m.group(0).lower().split(".")[0] for m in re.finditer(r"[A-Za-z_][A-Za-z0-9_$]*(?:\.[A-Za-z_][A-Za-z0-9_]*)*", t)]


@rule(
    "L10",
    "ALIAS-SAFE: `X = F(..X..)` hands X to the procedure both as an argument and as the result (by reference); a procedure standing in for a function never reads an input parameter of the result's type after it may have written the result",
    ["C20", "C03", "C01", "C04", "C05"],
    floor=1,
    default_props=["C01", "C05"],
)
def l10(ctx: Ctx):
    L = b09lib(ctx)
    py = pyfacts(ctx)
    # the emitter does alias: the patcher gives the function the assignment's own target as its result variable
    aliasing = False
    from .pyast import resolve_alias

    for rel in ("coco/b09/visitors.py", "coco/b09/elements.py"):
        for fn_ in [f for f in ast.walk(py.mod(rel).tree) if isinstance(f, ast.FunctionDef)]:
            for n in walk_no_nested(fn_):
                if isinstance(n, ast.Call) and isinstance(n.func, ast.Attribute) and n.func.attr == "set_var" and len(n.args) == 1:
                    a = resolve_alias(fn_, n.args[0])
                    recv = resolve_alias(fn_, n.func.value)
                    if isinstance(a, ast.Attribute) and a.attr == "var" and isinstance(recv, ast.Attribute) and recv.attr == "exp" and unparse(resolve_alias(fn_, a.value)) == unparse(resolve_alias(fn_, recv.value)):
                        aliasing = True
    if not aliasing:
        ctx.undecided("emitter", "the patcher no longer binds the assignment target as the function's result variable (`statement.exp.set_var(statement.var)`): whether calls can alias is not decided here", file="coco/b09/visitors.py", line=1)
        return
    funcs = functional_procedures(ctx)
    from .absint import Seq
    from .rules_abs import run_sites

    arities: Dict[str, Set[int]] = {}
    for s_ in run_sites(ctx):
        m_ = re.fullmatch(r"(?i)run\s+(\w+)", s_["inv"].strip())
        if m_ and s_["kind"] == "function" and isinstance(s_["args"], Seq) and s_["args"].tail is None:
            arities.setdefault(m_.group(1).lower(), set()).add(len(s_["args"].items))
    for name, src in sorted(funcs.items()):
        if name.lower() in SYSTEM_MODULES or name not in L.procs:
            continue
        p = L.procs[name]
        if len(p.params) < 2:
            continue
        res, rtype, _ = p.params[-1]
        inputs = {pn for pn, pt, _ in p.params[:-1] if pt == rtype}
        if not inputs:
            ctx.info(f"{name}", f"no input parameter has the type of the result `{res}` ({rtype}): the same variable cannot be passed for both", file=LIB_REL, line=p.line)
            continue
        # the emitter fills the leading parameters with the operands and the next one with the result variable
        n_ops = arities.get(name.lower())
        if n_ops is None:
            ctx.undecided(f"{name}", "no emission site with a fixed argument list found for this procedure", file=LIB_REL, line=p.line)
            continue
        if len(n_ops) != 1 or next(iter(n_ops)) + 1 != len(p.params):
            ctx.info(f"{name}", f"emitted with {sorted(n_ops)} operands + result for {len(p.params)} parameters: the interface mismatch is rule L1's finding, aliasing is not judged", file=LIB_REL, line=p.line)
            continue
        blocks = build_blocks(L, p)
        hits: List[Tuple[int, str, str]] = []
        has_trap = any(s.text.lower().split()[:3] == ["on", "error", "goto"] for s in L.all_stmts(p))
        any_write = [False]

        def reads(text: str, written: bool, line: int):
            if written:
                for idn in _idents(text):
                    if idn in inputs and not any(h[0] == line and h[1] == idn for h in hits):
                        hits.append((line, idn, text.strip()))

        def stmt(st: Stmt, written: bool) -> Optional[bool]:
            """State after the statement; None = the path ends here."""
            if st.label and has_trap and any_write[0]:
                written = True  # an error trap may arrive here from any point after a write
            if st.kind in ("error", "end"):
                reads(st.text, written, st.line)
                return None
            if st.kind in ("assign", "read") and st.target == res:
                m = re.match(r"(?is)^[^=]*?:?=(.*)$", st.text)
                reads(m.group(1) if m else st.text, written, st.line)
                any_write[0] = True
                return True
            if st.kind == "run":
                reads(" ".join(a for a in st.run_args if a.strip().lower() != res), written, st.line)
                if any(a.strip().lower() == res for a in st.run_args):
                    any_write[0] = True
                    return True
                return written
            reads(st.text, written, st.line)
            return written

        def walk(items: List[object], written: bool) -> Optional[bool]:
            cur: Optional[bool] = written
            for it in items:
                if cur is None:
                    # code after ERROR / END is only reachable through a label
                    if isinstance(it, Stmt) and it.label:
                        cur = bool(any_write[0])
                    else:
                        continue
                if isinstance(it, Stmt):
                    cur = stmt(it, cur)
                    continue
                b = it
                head = b.head
                if b.kind in ("if", "exitif"):
                    cond = re.match(r"(?is)^\s*(?:if|exitif)\s+(.*?)\s+then\b", head.text)
                    reads(cond.group(1) if cond else head.text, cur, head.line)
                    s1 = walk(b.body, cur)
                    s2 = walk(b.orelse, cur) if b.orelse is not None else cur
                    if b.kind == "exitif":
                        s1 = None if s1 is None else s1
                        cur = (s1 or False) or (s2 or False) if not (s1 is None and s2 is None) else None
                    else:
                        cur = None if (s1 is None and s2 is None) else bool(s1) or bool(s2)
                else:
                    # loops: the head is evaluated at entry (FOR bounds) or before every round (WHILE / UNTIL)
                    if head is not None and b.kind == "for":
                        reads(head.text, cur, head.line)
                    s1 = walk(b.body, cur)
                    again = bool(cur) or bool(s1)
                    if head is not None and b.kind in ("while", "repeat"):
                        reads(head.text, again, head.line)
                    walk(b.body, again)  # a later round runs after whatever an earlier one wrote
                    cur = again
            return cur

        walk(blocks, False)
        props_ = ["C20", "C03", "C01"] if name in ("ecb_instr", "ecb_string") else ["C03", "C01"] if name in ("ecb_val", "ecb_str") else ["C01"]
        # a function that reads a device record (POINT, JOYSTK, BUTTON): its operands no longer reach the device code
        if any(pt[1] not in ("num", "str", "int", "real", "byte", "bool") for pt in p.params):
            props_ = props_ + ["C04"]
        # (the operand of a hoisted call is lost before its last use: C05 "no call or operand is lost")
        props_ = props_ + ["C05"]
        ok = not hits
        ctx.ob(
            f"{name}",
            ok,
            "" if ok else f"procedure {name} reads its input parameter `{hits[0][1]}` (line {hits[0][0]}: `{hits[0][2]}`) after it may have written the result parameter `{res}`; both are {rtype} and the emitter passes one variable for both in `X = F(X)`: the function sees its own half-built result instead of its argument",
            file=LIB_REL,
            line=hits[0][0] if hits else p.line,
            props=props_,
            signature="" if ok else "reads " + ", ".join(sorted({h[1] for h in hits})) + " after writing the result",
        )


# ---------------------------------------------------------------------------
# L11 LIB-BLOCKS


@rule("L11", "LIB-BLOCKS: every procedure of the bundled library closes the blocks it opens (IF/ELSE/ENDIF, FOR/NEXT, WHILE/ENDWHILE, LOOP/ENDLOOP, EXITIF/ENDEXIT, REPEAT/UNTIL): the library is emitted verbatim into the user's bundle", ["C07"], floor=50)
def l11(ctx: Ctx):
    L = b09lib(ctx)
    # every statement line reads as a whole statement
    for name, p in sorted(L.procs.items()):
        bad_ = [m_ for m_ in L.malformed if p.line <= m_[0] and all(not (p.line < q.line <= m_[0]) for q in L.procs.values() if q is not p)]
        if bad_:
            ctx.ob(f"{name}:statements", False, f"procedure {name}, line {bad_[0][0]}: `{bad_[0][1][:70]}` is {bad_[0][2]} - the emitted bundle contains a line BASIC09 cannot compile", file=LIB_REL, line=bad_[0][0], props=["C07"])
    for name, p in sorted(L.procs.items()):
        try:
            build_blocks(L, p)
            ok, why = True, ""
        except AnalysisError as e:
            ok, why = False, str(e.reason if hasattr(e, "reason") else e)
        ctx.ob(name, ok, "" if ok else f"procedure {name}: {why} - the emitted bundle contains a procedure BASIC09 cannot pack", file=LIB_REL, line=p.line)


# ---------------------------------------------------------------------------
# L12 LIB-QUOTES


@rule("L12", "LIB-QUOTES: no line of the bundled library misleads the bank's quote counting: a line with an odd number of double quotes carries no RUN and no placeholder (and, where a pattern is applied to more than one line at a time, no line has an odd number at all)", ["C13"], floor=50)
def l12(ctx: Ctx):
    from .peg import fold_module
    from .rules_bank import _line_valued, _pattern_uses

    L = b09lib(ctx)
    env_pb = fold_module(ctx, PROCBANK_REL)
    # the reach of the quote counting: one line (every guarded pattern is applied line by line) or the whole text
    whole_text = []
    for nm in ("INVOKED_PROCEDURE_NAMES", "STR_STORAGE_TAG"):
        uses = _pattern_uses(ctx, nm)
        ctx.need(uses, f"{nm}:uses", f"no application of `{nm}` found in procbank.py")
        mod_tree = pyfacts(ctx).mod(PROCBANK_REL).tree
        if not all(_line_valued(fn_, subj, env_pb, mod_tree) is not False for fn_, _, subj in uses):
            whole_text.append(nm)
    for name, p in sorted(L.procs.items()):
        odd = [(ln, raw) for ln, raw in p.lines if raw.count('"') % 2 == 1]
        if whole_text:
            bad = odd
            why = f"`{whole_text[0]}` counts quotes across lines: every RUN / `STRING<<>>` placeholder in front of this line (in the whole bundle) is taken to be inside a string literal - placeholders stay unreplaced, dependencies are missed"
        else:
            bad = [(ln, raw) for ln, raw in odd if re.search(r"(?i)string<<>>|\brun\s+\w", raw)]
            why = "the RUN / `STRING<<>>` placeholder on the same line is taken to be inside a string literal (or a quoted one for real): it stays unreplaced / the dependency is missed"
        ok = not bad
        ctx.ob(name, ok, "" if ok else f"procedure {name}, line {bad[0][0]}: `{bad[0][1].strip()[:70]}` has an odd number of double quotes; {why}", file=LIB_REL, line=bad[0][0] if bad else p.line)
