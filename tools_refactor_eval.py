#!/usr/bin/env python3
"""Evaluate behaviour-preserving refactorings written by independent sub-agents (/tmp/seed/outR_<id>/patch<k>.diff,
equiv<k>.py, meta<k>.json): confirm them (suite, equivalence script on both trees), run every quick check on the
refactored tree, archive under /verif/refactors/<id>-<k>/.  A VIOLATION / ANALYSIS-ERROR on a confirmed refactoring is a
false alarm of the checker.   usage: tools_refactor_eval.py import R01 R02 ... | rerun"""
import json, os, shutil, subprocess, sys, tempfile
from concurrent.futures import ProcessPoolExecutor

ROOT = "/verif/refactors"


def sh(cmd, cwd=None, env=None, timeout=1200):
    e = dict(os.environ); e.update(env or {})
    p = subprocess.run(cmd, shell=True, cwd=cwd, env=e, capture_output=True, text=True, timeout=timeout)
    return p.returncode, p.stdout + p.stderr


def evaluate(name):
    d = f"{ROOT}/{name}"
    wt = tempfile.mkdtemp(prefix="refwt_")
    res = {}
    try:
        sh(f"cd /repo && tar --exclude=.git --exclude=__pycache__ -cf - . | tar -xf - -C {wt}")
        rc, o = sh(f"patch -p1 -s -d {wt} -i {d}/patch.diff")
        res["applies"] = rc == 0
        if rc != 0:
            res["apply_error"] = o[-300:]
            return name, res
        rc, o = sh("/venv/bin/python -m pytest -q -p no:cacheprovider 2>&1 | tail -3", cwd=wt, env={"PYTHONPATH": wt})
        res["suite_passes"] = "306 passed" in o
        r0, o0 = sh(f"/venv/bin/python {d}/equiv.py", cwd="/tmp", env={"PYTHONPATH": "/repo", "PYTHONHASHSEED": "0"})
        r1, o1 = sh(f"/venv/bin/python {d}/equiv.py", cwd="/tmp", env={"PYTHONPATH": wt, "PYTHONHASHSEED": "0"})
        l0 = (o0.strip().splitlines() or [""])[-1]
        l1 = (o1.strip().splitlines() or [""])[-1]
        res["equiv_digest_original"] = l0[-120:]
        res["equiv_digest_refactored"] = l1[-120:]
        res["equivalent_on_script"] = r0 == 0 and r1 == 0 and l0 == l1
        ev = tempfile.mkdtemp(prefix="refev_")
        rc, o = sh(f"/venv/bin/python -m sa.check all --repo {wt}", cwd="/verif", env={"SA_EVIDENCE_DIR": ev, "PYTHONHASHSEED": "0"})
        shutil.rmtree(ev, ignore_errors=True)
        res["violations"] = sorted({l.split("property=")[1].split()[0] for l in o.splitlines() if l.startswith("VIOLATION")})
        res["analysis_errors"] = sorted({l[:200] for l in o.splitlines() if l.startswith("ANALYSIS-ERROR")})[:6]
        res["skipped"] = sorted({l[:160] for l in o.splitlines() if l.startswith("SKIPPED")})[:6]
        reps = []
        for l in o.splitlines():
            if l.startswith("coco/") and ": " in l:
                k = l.split(": ", 1)[1][:220]
                if k not in reps:
                    reps.append(k)
        res["reports"] = reps[:6]
    finally:
        shutil.rmtree(wt, ignore_errors=True)
    return name, res


def main():
    mode = sys.argv[1]
    os.makedirs(ROOT, exist_ok=True)
    if mode == "import":
        for rid in sys.argv[2:]:
            src = f"/tmp/seed/outR_{rid}"
            for k in "123":
                if not os.path.exists(f"{src}/patch{k}.diff"):
                    continue
                d = f"{ROOT}/{rid}-{k}"
                os.makedirs(d, exist_ok=True)
                shutil.copy(f"{src}/patch{k}.diff", f"{d}/patch.diff")
                shutil.copy(f"{src}/equiv{k}.py", f"{d}/equiv.py")
                try:
                    m = json.load(open(f"{src}/meta{k}.json"))
                except Exception:
                    m = {}
                json.dump({"area": m.get("area", rid), "summary": m.get("summary", ""), "why_equivalent": m.get("why_equivalent", ""), "author": "independent sub-agent asked for behaviour-preserving refactorings; saw nothing of /verif"}, open(f"{d}/meta.json", "w"), indent=1)
        todo = [f"{r}-{k}" for r in sys.argv[2:] for k in "123" if os.path.isdir(f"{ROOT}/{r}-{k}")]
    elif mode == "only":
        todo = [x for x in sys.argv[2:] if os.path.exists(f"{ROOT}/{x}/patch.diff")]
    else:
        todo = sorted(x for x in os.listdir(ROOT) if os.path.exists(f"{ROOT}/{x}/patch.diff"))
    with ProcessPoolExecutor(max_workers=8) as ex:
        results = list(ex.map(evaluate, todo))
    for name, r in results:
        mf = f"{ROOT}/{name}/meta.json"
        meta = json.load(open(mf))
        confirmed = bool(r.get("applies") and r.get("suite_passes") and r.get("equivalent_on_script"))
        meta["confirmed"] = confirmed
        meta["what_i_ran"] = "copy of /repo in <scratch>; patch -p1; pytest (306 passed: %s); equiv.py on /repo and on <scratch> (same digest: %s); sa.check all --repo <scratch>" % (r.get("suite_passes"), r.get("equivalent_on_script"))
        if "first_contact" not in meta and mode == "import":
            meta["first_contact"] = {"checker_commit": os.popen("git -C /verif rev-parse --short HEAD").read().strip(), "violations": r.get("violations"), "analysis_errors": r.get("analysis_errors"), "skipped": r.get("skipped")}
        for k in ("violations", "analysis_errors", "skipped", "reports", "applies"):
            meta[k] = r.get(k)
        json.dump(meta, open(mf, "w"), indent=1)
        alarm = "ALARM" if (r.get("violations") or r.get("analysis_errors")) else "silent"
        print(f"{name}: confirmed={confirmed} {alarm} viol={r.get('violations')} err={len(r.get('analysis_errors') or [])} skipped={len(r.get('skipped') or [])}")
        if not confirmed:
            print("    NOT CONFIRMED:", {k: r.get(k) for k in ("applies", "suite_passes", "equivalent_on_script", "equiv_digest_original", "equiv_digest_refactored")})


main()
